/-
  The text front end never fails for lack of fuel: `parseStmts` is given the length of the line + 1
  and every recursive call is on a strictly shorter text; lexer and expression parser likewise.
-/
import BespokeVerif.Lemmas.Parse
import BespokeVerif.Lemmas.LexFuel
import BespokeVerif.Lemmas.ExprParse
namespace BV

def NoOof {α : Type} (x : Except Err α) : Prop := x ≠ .error .outOfFuel

theorem noOof_ok {α : Type} (a : α) : NoOof (Except.ok a : Except Err α) := by
  intro h; cases h

theorem noOof_err {α : Type} (e : Err) (h : e ≠ .outOfFuel) : NoOof (.error e : Except Err α) := by
  intro h'; injection h' with h'; exact h h'

theorem noOof_bind {α β : Type} {x : Except Err α} {g : α → Except Err β}
    (hx : NoOof x) (hg : ∀ a, x = .ok a → NoOof (g a)) : NoOof (x >>= g) := by
  cases x with
  | error e =>
    intro h
    have h' : (Except.error e : Except Err β) = .error .outOfFuel := h
    injection h' with h'
    exact hx (by rw [h'])
  | ok a => exact hg a rfl

theorem noOof_mapM {α β : Type} (f : α → Except Err β) (l : List α) (h : ∀ a ∈ l, NoOof (f a)) : NoOof (l.mapM f) := by
  induction l with
  | nil => exact noOof_ok _
  | cons a l ih =>
    rw [List.mapM_cons]
    refine noOof_bind (h a (List.mem_cons_self ..)) (fun b _ => ?_)
    refine noOof_bind (ih (fun x hx => h x (List.mem_cons_of_mem _ hx))) (fun bs _ => noOof_ok _)

theorem parseExprText_noOof (t : List Char) : NoOof (parseExprText t) := by
  unfold parseExprText
  exact noOof_bind (lexExpr_ne_oof t) (fun ts _ => ParseLemmas.parseExpr_ne_oof ts)

theorem ptrimL_len (l : List Char) : (ptrimL l).length ≤ l.length := dropWhile_length_le _ l
theorem ptrimR_len (l : List Char) : (ptrimR l).length ≤ l.length := by
  unfold ptrimR
  have := ptrimL_len l.reverse
  simpa using this
theorem ptrim_len (l : List Char) : (ptrim l).length ≤ l.length := by
  unfold ptrim
  have h1 := ptrimR_len (ptrimL l)
  have h2 := ptrimL_len l
  omega

theorem takeName_len (t : List Char) : (takeName t).1.length + (takeName t).2.length = t.length := by
  unfold takeName
  rw [← List.length_append, List.takeWhile_append_dropWhile]

theorem takeQuotedBody_len (q : Char) (e : Bool) (l b r : List Char) (h : takeQuotedBody q e l = some (b, r)) :
    r.length < l.length := by
  induction l generalizing e b with
  | nil => simp [takeQuotedBody] at h
  | cons c l ih =>
    have step : ∀ e', (takeQuotedBody q e' l).map (fun (p : List Char × List Char) => (c :: p.1, p.2)) = some (b, r) →
        r.length < (c :: l).length := by
      intro e' h'
      cases hq : takeQuotedBody q e' l with
      | none => rw [hq] at h'; simp at h'
      | some p =>
        obtain ⟨b', r'⟩ := p
        rw [hq] at h'
        simp only [Option.map_some, Option.some.injEq, Prod.mk.injEq] at h'
        obtain ⟨_, rfl⟩ := h'
        have := ih _ _ hq
        simp only [List.length_cons]; omega
    rw [takeQuotedBody] at h
    split at h
    · exact step _ h
    · split at h
      · exact step _ h
      · split at h
        · cases h; simp
        · exact step _ h

theorem cutAtLabelDef_len (acc l : List Char) : (cutAtLabelDef acc l).2.length ≤ l.length := by
  induction l generalizing acc with
  | nil => simp [cutAtLabelDef]
  | cons c l ih =>
    rw [cutAtLabelDef]
    split
    · simp
    · have := ih (c :: acc); simp; omega

theorem cutAtMnemonic_len (cfg : PCfg) (m : QMode) (s : Bool) (l : List Char) : (cutAtMnemonic cfg m s l).2.length ≤ l.length := by
  induction l generalizing m s with
  | nil => cases m <;> simp [cutAtMnemonic]
  | cons c l ih =>
    cases m with
    | none =>
      rw [cutAtMnemonic]
      split
      · have := ih (some (c, false)) false; simp; omega
      · split
        · simp
        · have := ih none (!isNameChar c); simp; omega
    | some qe =>
      obtain ⟨q, esc⟩ := qe
      rw [cutAtMnemonic]
      show (cutAtMnemonic cfg _ false l).2.length ≤ _
      have := ih (if esc then some (q, false) else if c == '\\' then some (q, true) else if c == q then none else some (q, false)) false
      simp only [List.length_cons]; omega

theorem valueList_noOof (w : Nat) (rest : List Char) :
    NoOof (do
      let vals ← ((splitCommas (ptrim rest)).filter fun v => !(ptrim v).isEmpty).mapM fun v => parseExprText (ptrim v)
      (Except.ok (Stmt.data w vals, ([] : List Char)) : Except Err (Stmt × List Char))) :=
  noOof_bind (noOof_mapM _ _ (fun _ _ => parseExprText_noOof _)) (fun _ _ => noOof_ok _)

theorem valueList_len (w : Nat) (rest : List Char) (s : Stmt) (after : List Char)
    (h : (do
      let vals ← ((splitCommas (ptrim rest)).filter fun v => !(ptrim v).isEmpty).mapM fun v => parseExprText (ptrim v)
      (Except.ok (Stmt.data w vals, ([] : List Char)) : Except Err (Stmt × List Char))) = .ok (s, after)) : after = [] := by
  cases hm : ((splitCommas (ptrim rest)).filter fun v => !(ptrim v).isEmpty).mapM fun v => parseExprText (ptrim v) with
  | error e => rw [hm] at h; simp [bind, Except.bind] at h
  | ok vals => rw [hm] at h; simp [bind, Except.bind] at h; exact h.2

theorem parseData_ok (cfg : PCfg) (w : Nat) (term : Option Nat) (rest : List Char) :
    NoOof (parseData cfg w term rest) ∧
    ∀ s after, parseData cfg w term rest = .ok (s, after) → after.length ≤ rest.length := by
  unfold parseData
  have hl := ptrimL_len rest
  cases hr : ptrimL rest with
  | nil => exact ⟨noOof_err _ (by decide), fun s a h => by simp at h⟩
  | cons q body =>
    rw [hr] at hl
    simp only
    by_cases hq : isQuote q = true
    · simp only [hq, if_true]
      have hAsList : NoOof (if term.isSome = true then (Except.error Err.badDirective : Except Err (Stmt × List Char)) else do
          let vals ← ((splitCommas (ptrim (q :: body))).filter fun v => !(ptrim v).isEmpty).mapM fun v => parseExprText (ptrim v)
          Except.ok (Stmt.data w vals, [])) ∧ ∀ s after, (if term.isSome = true then (Except.error Err.badDirective : Except Err (Stmt × List Char)) else do
          let vals ← ((splitCommas (ptrim (q :: body))).filter fun v => !(ptrim v).isEmpty).mapM fun v => parseExprText (ptrim v)
          Except.ok (Stmt.data w vals, [])) = .ok (s, after) → after.length ≤ rest.length := by
        split
        · exact ⟨noOof_err _ (by decide), fun s a h => by simp at h⟩
        · exact ⟨valueList_noOof w _, fun s a h => by rw [valueList_len w _ s a h]; simp⟩
      cases htq : takeQuotedBody q false body with
      | none => simpa using hAsList
      | some p =>
        obtain ⟨b, after⟩ := p
        have hlen := takeQuotedBody_len q false body b after htq
        simp only
        split
        · split
          · exact hAsList
          · exact ⟨noOof_ok _, fun s a h => by cases h; simp at hl; omega⟩
        · exact ⟨noOof_ok _, fun s a h => by cases h; simp at hl; omega⟩
    · simp only [hq, Bool.false_eq_true, if_false]
      split
      · exact ⟨noOof_err _ (by decide), fun s a h => by simp at h⟩
      · exact ⟨valueList_noOof w _, fun s a h => by rw [valueList_len w _ s a h]; simp⟩

theorem parseStmts_noOof (cfg : PCfg) (hmn : cfg.mnemonics.contains "" = false) :
    ∀ f t, t.length < f → NoOof (parseStmts cfg f t) := by
  intro f
  induction f with
  | zero => intro t h; omega
  | succ f ih =>
    intro t0 h0
    rw [parseStmts]
    have htl := ptrim_len t0
    generalize ptrim t0 = t at htl ⊢
    cases t with
    | nil => exact noOof_ok _
    | cons c0 tl =>
      simp only
      have hn := takeName_len (c0 :: tl)
      generalize hw : takeName (c0 :: tl) = wr at hn ⊢
      obtain ⟨w, rest⟩ := wr
      simp only at hn ⊢
      have hfl : (c0 :: tl).length ≤ f := by omega
      have hrest_le : rest.length ≤ (c0 :: tl).length := by omega
      -- the recursive call behind a statement, on any strictly shorter text
      have recK : ∀ (x : List Char) (k : List Stmt → List Stmt), x.length < (c0 :: tl).length →
          NoOof (parseStmts cfg f x >>= fun m => Except.ok (k m)) := fun x k hx =>
        noOof_bind (ih x (by omega)) (fun _ _ => noOof_ok _)
      have exprK : ∀ {β : Type} (x : List Char) (g : E → Except Err β), (∀ e, NoOof (g e)) →
          NoOof (parseExprText x >>= g) := fun x g hg => noOof_bind (parseExprText_noOof x) (fun e _ => hg e)
      refine (by
        split
        · -- label in front
          rename_i hc
          have hr : rest ≠ [] := by
            intro h; subst h; simp at hc
          have : rest.tail.length < rest.length := by
            cases rest with
            | nil => contradiction
            | cons _ _ => simp
          exact recK _ _ (by omega)
        split
        · exact exprK _ _ (fun _ => noOof_ok _)
        split
        · exact exprK _ _ (fun _ => noOof_ok _)
        split
        · -- directives: the name is not empty, so the rest is strictly shorter
          rename_i hdot
          have hc0 : c0 = '.' := by simpa using hdot
          subst hc0
          have hwne : w.length ≥ 1 := by
            have : w = ('.' :: tl).takeWhile isNameChar := by
              have := congrArg Prod.fst hw; simpa [takeName] using this.symm
            rw [this, List.takeWhile_cons_of_pos (by decide)]; simp
          have hrl : rest.length < ('.' :: tl).length := by omega
          have hcut := cutAtLabelDef_len [] rest
          have hpl := ptrimL_len rest
          have dataK : ∀ (wd : Nat) (term : Option Nat),
              NoOof (parseData cfg wd term rest >>= fun x => parseStmts cfg f x.snd >>= fun m => Except.ok (x.fst :: m)) :=
            fun wd term => noOof_bind (parseData_ok cfg wd term rest).1 (fun x hx => by
              have := (parseData_ok cfg wd term rest).2 x.1 x.2 (by simpa using hx)
              exact recK _ _ (by omega))
          split
          · refine noOof_bind ?_ (fun _ _ => recK _ _ (by omega))
            split
            · exact exprK _ _ (fun _ => noOof_ok _)
            · exact exprK _ _ (fun _ => noOof_ok _)
          · refine recK _ _ ?_
            simp only [List.length_drop]; omega
          · split
            · exact exprK _ _ (fun _ => exprK _ _ (fun _ => recK _ _ (by omega)))
            · exact noOof_err _ (by decide)
          · exact exprK _ _ (fun _ => recK _ _ (by omega))
          · exact exprK _ _ (fun _ => recK _ _ (by omega))
          · split
            · exact noOof_ok _
            · split
              · exact exprK _ _ (fun _ => noOof_ok _)
              · exact exprK _ _ (fun _ => recK _ _ (by omega))
          · exact dataK _ _
          · exact dataK _ _
          · exact dataK _ _
          · exact dataK _ _
          · exact dataK _ _
          · exact dataK _ _
          · exact noOof_err _ (by decide)
        split
        · split
          · rename_i b after htq
            have := takeQuotedBody_len _ _ _ _ _ htq
            exact recK _ _ (by simp at this ⊢; omega)
          · exact noOof_err _ (by decide)
        split
        · rename_i hm
          have hwne : w.length ≥ 1 := by
            cases w with
            | nil =>
              have : lowerS [] = "" := by rw [lowerS_eq]; rfl
              rw [this, hmn] at hm; cases hm
            | cons _ _ => simp
          have hcm := cutAtMnemonic_len cfg none false rest
          split
          · exact noOof_bind (noOof_ok _) (fun _ _ => recK _ _ (by omega))
          · intro h; simp [bind, Except.bind] at h
        · exact noOof_err _ (by decide))

theorem applyBin_noOof (op : BinOp) (l r : Rat) : NoOof (applyBin op l r) := by
  unfold applyBin
  cases op <;> simp only <;> (try split) <;> first | exact noOof_ok _ | exact noOof_err _ (by decide)

theorem evalE_noOof (env : String → Option Int) (e : E) : NoOof (evalE env e) := by
  induction e with
  | num n => exact noOof_ok _
  | label s => rw [evalE]; split <;> first | exact noOof_ok _ | exact noOof_err _ (by decide)
  | neg e ih => rw [evalE]; exact noOof_bind ih (fun _ _ => noOof_ok _)
  | byteN k e ih => rw [evalE]; exact noOof_bind ih (fun _ _ => noOof_ok _)
  | bin op l r ihl ihr =>
    rw [evalE]
    exact noOof_bind ihl (fun _ _ => noOof_bind ihr (fun _ _ => applyBin_noOof _ _ _))

theorem parseIntText_noOof (t : List Char) : NoOof (parseIntText t) := by
  unfold parseIntText valueE
  exact noOof_bind (parseExprText_noOof _) (fun _ _ => noOof_bind (evalE_noOof _ _) (fun _ _ => noOof_ok _))

theorem condSide_noOof (t : List Char) : NoOof (condSide t) := by
  unfold condSide
  simp only
  split
  · split
    · split
      · exact noOof_ok _
      · exact noOof_err _ (by decide)
    · exact parseExprText_noOof _
  · exact noOof_err _ (by decide)

theorem parseCond_noOof (t : List Char) : NoOof (parseCond t) := by
  unfold parseCond
  split
  · exact noOof_bind (condSide_noOof _) (fun _ _ => noOof_bind (condSide_noOof _) (fun _ _ => noOof_ok _))
  · exact noOof_bind (condSide_noOof _) (fun _ _ => noOof_ok _)

theorem parsePreproc_noOof (cfg : PCfg) (t : List Char) : NoOof (parsePreproc cfg t) := by
  unfold parsePreproc
  simp only
  split
  all_goals first
    | exact noOof_ok _
    | exact noOof_err _ (by decide)
    | exact noOof_bind (parseCond_noOof _) (fun _ _ => noOof_ok _)
    | skip
  · -- #define
    split
    · exact noOof_err _ (by decide)
    · split
      · exact noOof_ok _
      · split <;> exact noOof_ok _
  · -- #include
    split
    · split
      · split
        · split <;> exact noOof_ok _
        · exact noOof_err _ (by decide)
      · exact noOof_err _ (by decide)
    · exact noOof_err _ (by decide)
  · -- #create_memzone
    split
    · exact noOof_bind (parseIntText_noOof _) (fun _ _ => noOof_bind (parseIntText_noOof _) (fun _ _ => noOof_ok _))
    · exact noOof_err _ (by decide)

/-- one source line: never `outOfFuel` (the fuel handed to `parseStmts` is the length of the
    stripped line + 1) -/
theorem parseLine_noOof (cfg : PCfg) (hmn : cfg.mnemonics.contains "" = false) (line : List Char) :
    NoOof (parseLine cfg line) := by
  unfold parseLine
  simp only
  split
  · exact noOof_ok _
  · exact parsePreproc_noOof _ _
  · exact parseStmts_noOof cfg hmn _ _ (by omega)

theorem parseFile_noOof (cfg : PCfg) (hmn : cfg.mnemonics.contains "" = false) (text : String) :
    NoOof (parseFile cfg text) := by
  unfold parseFile
  exact noOof_bind (noOof_mapM _ _ (fun l _ => parseLine_noOof cfg hmn _)) (fun _ _ => noOof_ok _)

end BV
