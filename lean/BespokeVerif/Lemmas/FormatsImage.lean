/-
  The printers and the image are fed the same lines: the address→byte pairs of the lines handed to the
  pretty printers (`toOutLines`) are those of the emitted lines the image is made of, and a byte of the image
  is the first pair of that list with its address.
-/
import BespokeVerif.Model.Pipeline
import BespokeVerif.Lemmas.ImageFast
namespace BV

/-- the address→byte pairs of the unmuted byte lines, line by line -/
def emittedMap (es : List Emitted) : AddrMap :=
  es.flatMap fun e =>
    if e.isByte && !e.muted then (List.range e.bytes.length).map fun (i : Nat) => (e.addr + (i : Int), e.bytes[i]!) else []

/-- the printers are fed the very lines the image is made of -/
theorem toOutLines_of_emitAll (cfg : Cfg) (L : Labels) (ps : List Placed) (es : List Emitted)
    (h : emitAll cfg L ps = .ok es) :
    ∃ ols, toOutLines cfg L ps = .ok ols ∧ outLinesMap ols = emittedMap es := by
  induction ps generalizing es with
  | nil =>
    simp only [emitAll] at h; cases h
    exact ⟨[], rfl, rfl⟩
  | cons p rest ih =>
    rw [emitAll] at h
    cases hb : lineBytes cfg L p with
    | error e => rw [hb] at h; cases h
    | ok bs =>
      rw [hb] at h
      cases hr : emitAll cfg L rest with
      | error e => rw [hr] at h; cases h
      | ok es' =>
        rw [hr] at h
        simp only [bind, Except.bind] at h
        cases h
        obtain ⟨ols', ho, hm⟩ := ih es' hr
        rw [toOutLines, ho]
        simp only [bind, Except.bind]
        cases hs : p.line.stmt <;>
          simp [isByteLine, hb, emittedMap, outLinesMap, hs, bind, Except.bind, List.flatMap_cons] <;>
          first
            | exact hm
            | (cases hmu : p.line.muted <;> simp [outLinesMap, hm, emittedMap])
theorem find_range_map (addr a : Int) (f : Nat → Nat) (n : Nat) :
    ((List.range n).map fun (i : Nat) => (addr + (i : Int), f i)).find? (fun p => p.1 == a) =
      if addr ≤ a ∧ a < addr + n then some (a, f (a - addr).toNat) else none := by
  induction n with
  | zero =>
    simp only [List.range_zero, List.map_nil, List.find?_nil]
    rw [if_neg]; omega
  | succ n ih =>
    rw [List.range_succ, List.map_append, List.find?_append, ih]
    by_cases h1 : addr ≤ a ∧ a < addr + n
    · rw [if_pos h1, if_pos (by omega)]; rfl
    · rw [if_neg h1]
      simp only [List.map_cons, List.map_nil, Option.none_or]
      by_cases h2 : addr + (n : Int) = a
      · have : addr ≤ a ∧ a < addr + ((n + 1 : Nat) : Int) := by omega
        rw [if_pos this]
        have hn : (a - addr).toNat = n := by omega
        simp [List.find?, h2, hn]
      · have : ¬ (addr ≤ a ∧ a < addr + ((n + 1 : Nat) : Int)) := by omega
        rw [if_neg this]
        have hb : (addr + (n : Int) == a) = false := by simpa using h2
        simp [List.find?, hb]

theorem specImageByte_eq_lookup (es : List Emitted) (fill : Nat) (a : Int) :
    specImageByte es fill a = (mapGet (emittedMap es) a).getD fill := by
  unfold specImageByte mapGet
  induction es with
  | nil => simp [emittedMap]
  | cons e es ih =>
    have hm : emittedMap (e :: es) = (if e.isByte && !e.muted then (List.range e.bytes.length).map fun (i : Nat) => (e.addr + (i : Int), e.bytes[i]!) else []) ++ emittedMap es := by
      simp [emittedMap, List.flatMap_cons]
    rw [hm, List.find?_append, List.find?_cons]
    by_cases hc : (e.isByte && !e.muted) = true
    · rw [if_pos hc, find_range_map e.addr a (fun i => e.bytes[i]!) e.bytes.length]
      by_cases hcov : e.addr ≤ a ∧ a < e.addr + e.bytes.length
      · rw [if_pos hcov]
        have : (e.isByte && !e.muted && decide (e.addr ≤ a) && decide (a < e.addr + ↑e.bytes.length)) = true := by
          simp [hc, hcov.1, hcov.2]
        rw [this]
        simp
      · rw [if_neg hcov]
        have : (e.isByte && !e.muted && decide (e.addr ≤ a) && decide (a < e.addr + ↑e.bytes.length)) = false := by
          rw [hc]
          simp only [Bool.true_and]
          by_cases h1 : e.addr ≤ a
          · have h2 : ¬ a < e.addr + ↑e.bytes.length := fun h => hcov ⟨h1, h⟩
            simp [h1, h2]
          · simp [h1]
        rw [this]
        simp only [Option.none_or]
        exact ih
    · have hc' : (e.isByte && !e.muted) = false := by simpa using hc
      rw [if_neg hc]
      have : (e.isByte && !e.muted && decide (e.addr ≤ a) && decide (a < e.addr + ↑e.bytes.length)) = false := by
        rw [hc']; simp
      rw [this]
      simp only [List.find?_nil, Option.none_or]
      exact ih

/-- end to end: for every accepted program the printers receive a line list, and every byte of the image is
    what that list says about its address (the fill where it says nothing) -/
theorem image_eq_outLines (cfg : Cfg) (files : List (List Stmt)) (start : Int) (stop : Option Int) (fill : Nat)
    (o : Outcome) (h : assemble cfg files start stop fill = .ok o) :
    ∃ ols, assembleOut cfg files = .ok ols ∧
      o.image = (List.range o.image.length).map fun (i : Nat) =>
        (mapGet (outLinesMap ols) (start + (i : Int))).getD (fill % 256) := by
  rw [assemble_eq_fast] at h
  unfold assembleFast at h
  cases hl : assembleLines cfg files with
  | error e => rw [hl] at h; cases h
  | ok r =>
    obtain ⟨es, L⟩ := r
    rw [hl] at h
    simp only [bind, Except.bind] at h
    cases ho : overlapCheck none es with
    | error e => rw [ho] at h; cases h
    | ok u =>
      rw [ho] at h
      cases h
      unfold assembleLines at hl
      cases hp : assemblePlaced cfg files with
      | error e => rw [hp] at hl; cases hl
      | ok pr =>
        obtain ⟨sorted, L'⟩ := pr
        rw [hp] at hl
        simp only [bind, Except.bind] at hl
        cases he : emitAll cfg L' sorted with
        | error e => rw [he] at hl; cases hl
        | ok es' =>
          rw [he] at hl
          cases hl
          obtain ⟨ols, hols, hmap⟩ := toOutLines_of_emitAll cfg L sorted es he
          refine ⟨ols, ?_, ?_⟩
          · unfold assembleOut; rw [hp]; exact hols
          · show imageFastA start stop (fill % 256) es = _
            rw [imageFastA_eq]
            unfold imageFast
            simp only [List.length_map, List.length_range]
            apply List.map_congr_left
            intro i _
            rw [specImageByte_eq_lookup, hmap]

end BV
