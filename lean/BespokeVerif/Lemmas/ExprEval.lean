/-
  Helper lemmas for C07 (evaluation / byte extraction part): the statements of
  `Props/C07.lean` §"evaluation is ordinary arithmetic" and §"byte extraction", proved over the
  model of `Model/Expr.lean`. Core Lean only (no Mathlib).
-/
import BespokeVerif.Model.Expr
import BespokeVerif.Lemmas.Bits
namespace BV.EvalLemmas
open BV

/-! ## evaluation of the arithmetic operators, truncation, shifts -/

theorem eval_add (env) (l r : E) (a b : Rat) (hl : evalE env l = .ok a) (hr : evalE env r = .ok b) :
    evalE env (.bin .add l r) = .ok (a + b) := by
  simp only [evalE, hl, hr, applyBin, bind, Except.bind]
theorem eval_sub (env) (l r : E) (a b : Rat) (hl : evalE env l = .ok a) (hr : evalE env r = .ok b) :
    evalE env (.bin .sub l r) = .ok (a - b) := by
  simp only [evalE, hl, hr, applyBin, bind, Except.bind]
theorem eval_mul (env) (l r : E) (a b : Rat) (hl : evalE env l = .ok a) (hr : evalE env r = .ok b) :
    evalE env (.bin .mul l r) = .ok (a * b) := by
  simp only [evalE, hl, hr, applyBin, bind, Except.bind]
theorem eval_div (env) (l r : E) (a b : Rat) (hl : evalE env l = .ok a) (hr : evalE env r = .ok b)
    (hb : b ≠ 0) : evalE env (.bin .div l r) = .ok (a / b) := by
  simp only [evalE, hl, hr, applyBin, bind, Except.bind, if_neg hb]
theorem eval_div_zero (env) (l r : E) (a : Rat) (hl : evalE env l = .ok a) (hr : evalE env r = .ok 0) :
    evalE env (.bin .div l r) = .error .divZero := by
  simp only [evalE, hl, hr, applyBin, bind, Except.bind, if_true]
theorem eval_neg (env) (e : E) (a : Rat) (h : evalE env e = .ok a) :
    evalE env (.neg e) = .ok (-a) := by
  simp only [evalE, h, bind, Except.bind]

theorem truncQ_int (n : Int) : truncQ (n : Rat) = n := by
  simp only [truncQ, Rat.num_intCast, Rat.den_intCast, Int.natCast_one, Int.tdiv_one]
theorem truncQ_nonneg (q : Rat) (h : 0 ≤ q) : truncQ q = q.floor := by
  have hn : 0 ≤ q.num := Rat.num_nonneg.mpr h
  rw [truncQ, Rat.floor_def, Int.tdiv_eq_ediv_of_nonneg hn]
theorem truncQ_neg (q : Rat) (h : q < 0) : truncQ q = -((-q).floor) := by
  have hn : q.num < 0 := by
    apply Int.not_le.mp
    intro h'
    exact absurd (Rat.num_nonneg.mp h') (Rat.not_le.mpr h)
  have hn' : 0 ≤ (-q).num := by rw [Rat.neg_num]; omega
  rw [truncQ, Rat.floor_def, Rat.neg_num, Rat.neg_den, ← Int.tdiv_eq_ediv_of_nonneg (by omega), Int.neg_tdiv, Int.neg_neg]

theorem shl_spec (a n : Int) (hn : 0 ≤ n) :
    applyBin .shl (a : Rat) (n : Rat) = .ok ((a * (2 : Int) ^ n.toNat : Int) : Rat) := by
  simp only [applyBin, truncQ_int, if_neg (Int.not_lt.mpr hn)]
theorem shr_spec (a n : Int) (hn : 0 ≤ n) :
    applyBin .shr (a : Rat) (n : Rat) = .ok ((a / (2 : Int) ^ n.toNat : Int) : Rat) := by
  simp only [applyBin, truncQ_int, if_neg (Int.not_lt.mpr hn)]
theorem shift_negative_rejected (a n : Int) (hn : n < 0) :
    applyBin .shl (a : Rat) (n : Rat) = .error .badExpression ∧
    applyBin .shr (a : Rat) (n : Rat) = .error .badExpression := by
  simp only [applyBin, truncQ_int, if_pos hn, and_self]

/-! ## floored remainder -/

theorem mod_bounds_pos (b d : Rat) (hb : 0 < b) (h0 : 0 ≤ d) (h1 : d < 1) : 0 ≤ b * d ∧ b * d < b := by
  refine ⟨Rat.mul_nonneg (Rat.le_of_lt hb) h0, ?_⟩
  have := Rat.mul_lt_mul_of_pos_left h1 hb
  rwa [Rat.mul_one] at this

theorem mod_bounds_neg (b d : Rat) (hb : b < 0) (h0 : 0 ≤ d) (h1 : d < 1) : b < b * d ∧ b * d ≤ 0 := by
  have hb' : 0 < -b := by grind
  have := mod_bounds_pos (-b) d hb' h0 h1
  grind

theorem mod_spec (a b : Rat) (hb : b ≠ 0) :
    ∃ (k : Int) (m : Rat), applyBin .mod a b = .ok m ∧ a = b * (k : Rat) + m
      ∧ ((0 < b → 0 ≤ m ∧ m < b) ∧ (b < 0 → b < m ∧ m ≤ 0)) := by
  refine ⟨(a / b).floor, a - b * ((a / b).floor : Int), ?_, ?_, ?_⟩
  · simp only [applyBin, if_neg hb]
  · grind
  · have h1 : (((a / b).floor : Int) : Rat) ≤ a / b := Rat.floor_le _
    have h2 : a / b < ((((a / b).floor + 1 : Int)) : Rat) := Rat.lt_floor_add_one _
    rw [Rat.intCast_add] at h2
    have h3 : a / b * b = a := Rat.div_mul_cancel hb
    generalize ((a / b).floor : Rat) = f at *
    generalize a / b = c at *
    subst h3
    have e : c * b - b * f = b * (c - f) := by grind
    rw [e]
    have h0 : 0 ≤ c - f := by grind
    have h1' : c - f < 1 := by grind
    exact ⟨fun h => mod_bounds_pos b _ h h0 h1', fun h => mod_bounds_neg b _ h h0 h1'⟩

/-! ## bitwise operators on infinite two's complement -/

theorem bitAt_ofNat (m i : Nat) : bitAt (Int.ofNat m) i = m.testBit i := by
  unfold bitAt
  rw [Nat.testBit_eq_decide_div_mod_eq, Bool.eq_iff_iff]
  simp only [beq_iff_eq, decide_eq_true_eq]
  have e : (Int.ofNat m) / (2 : Int) ^ i = ((m / 2 ^ i : Nat) : Int) := by
    rw [Int.natCast_ediv, Int.natCast_pow]; rfl
  rw [e]
  omega

theorem bitAt_negSucc (m i : Nat) : bitAt (Int.negSucc m) i = !m.testBit i := by
  unfold bitAt
  rw [Nat.testBit_eq_decide_div_mod_eq, Bool.eq_iff_iff]
  simp only [beq_iff_eq, Bool.not_eq_true', decide_eq_false_iff_not]
  have hp : (0 : Int) < 2 ^ i := Int.pow_pos (by decide)
  have e : (Int.negSucc m) / (2 : Int) ^ i = -(((m / 2 ^ i : Nat) : Int) + 1) := by
    rw [Int.negSucc_ediv m hp, Int.natCast_ediv, Int.natCast_pow]; rfl
  rw [e]
  omega

theorem testBit_sub_and (m n i : Nat) : (m - (m &&& n)).testBit i = (m.testBit i && !n.testBit i) := by
  induction i generalizing m n with
  | zero =>
    simp only [Nat.testBit_zero]
    have h := @Nat.and_mod_two_eq_one m n
    have hle : m &&& n ≤ m := Nat.and_le_left
    rw [Bool.eq_iff_iff]
    simp only [decide_eq_true_eq, Bool.and_eq_true, Bool.not_eq_true', decide_eq_false_iff_not]
    omega
  | succ i ih =>
    simp only [Nat.testBit_add_one]
    rw [← ih]
    congr 1
    have h := @Nat.and_mod_two_eq_one m n
    have hle : m &&& n ≤ m := Nat.and_le_left
    have hd := @Nat.and_div_two m n
    omega

theorem intAnd_spec (a b : Int) (i : Nat) : bitAt (intAnd a b) i = (bitAt a i && bitAt b i) := by
  cases a <;> cases b <;>
    simp only [intAnd, bitAt_ofNat, bitAt_negSucc, Nat.testBit_and, Nat.testBit_or, testBit_sub_and,
      Bool.not_or, Bool.and_comm]
theorem intOr_spec (a b : Int) (i : Nat) : bitAt (intOr a b) i = (bitAt a i || bitAt b i) := by
  cases a <;> cases b <;>
    simp only [intOr, bitAt_ofNat, bitAt_negSucc, Nat.testBit_and, Nat.testBit_or, testBit_sub_and,
      Bool.not_and, Bool.not_not, Bool.or_comm]
theorem intXor_spec (a b : Int) (i : Nat) : bitAt (intXor a b) i = (bitAt a i != bitAt b i) := by
  cases a <;> cases b <;>
    simp only [intXor, bitAt_ofNat, bitAt_negSucc, Nat.testBit_xor] <;>
    cases Nat.testBit _ i <;> cases Nat.testBit _ i <;> rfl

/-! ## integer closure without `/` -/

theorem applyBin_int_closed (op : BinOp) (hop : op ≠ .div) (a b : Int) (q : Rat)
    (h : applyBin op (a : Rat) (b : Rat) = .ok q) : ∃ n : Int, q = (n : Rat) := by
  cases op with
  | div => exact absurd rfl hop
  | add =>
    simp only [applyBin, Except.ok.injEq] at h
    exact ⟨a + b, by rw [← h, Rat.intCast_add]⟩
  | sub =>
    simp only [applyBin, Except.ok.injEq] at h
    exact ⟨a - b, by rw [← h, Rat.intCast_sub]⟩
  | mul =>
    simp only [applyBin, Except.ok.injEq] at h
    exact ⟨a * b, by rw [← h, Rat.intCast_mul]⟩
  | mod =>
    simp only [applyBin] at h
    split at h
    · cases h
    · simp only [Except.ok.injEq] at h
      exact ⟨a - b * ((a : Rat) / (b : Rat)).floor, by rw [← h, Rat.intCast_sub, Rat.intCast_mul]⟩
  | shl =>
    simp only [applyBin] at h
    split at h
    · cases h
    · simp only [Except.ok.injEq] at h
      exact ⟨_, h.symm⟩
  | shr =>
    simp only [applyBin] at h
    split at h
    · cases h
    · simp only [Except.ok.injEq] at h
      exact ⟨_, h.symm⟩
  | band =>
    simp only [applyBin, Except.ok.injEq] at h
    exact ⟨_, h.symm⟩
  | bor =>
    simp only [applyBin, Except.ok.injEq] at h
    exact ⟨_, h.symm⟩
  | bxor =>
    simp only [applyBin, Except.ok.injEq] at h
    exact ⟨_, h.symm⟩

set_option linter.unusedVariables false in
theorem eval_int_closed_gen (P : E → Prop) (hneg : ∀ e, P (.neg e) → P e)
    (hbyte : ∀ k e, P (.byteN k e) → P e)
    (hbin : ∀ op l r, P (.bin op l r) → op ≠ .div ∧ P l ∧ P r)
    (env) (e : E) (q : Rat) (hd : P e) (h : evalE env e = .ok q) : ∃ n : Int, q = (n : Rat) := by
  induction e generalizing q with
  | num n =>
    simp only [evalE, Except.ok.injEq] at h
    exact ⟨n, h.symm⟩
  | label s =>
    simp only [evalE] at h
    split at h
    · simp only [Except.ok.injEq] at h
      exact ⟨_, h.symm⟩
    · cases h
  | neg e ih =>
    simp only [evalE, bind, Except.bind] at h
    split at h
    · cases h
    · rename_i v hv
      simp only [Except.ok.injEq] at h
      obtain ⟨n, rfl⟩ := ih v (hneg _ hd) hv
      exact ⟨-n, by rw [← h, Rat.intCast_neg]⟩
  | byteN k e ih =>
    simp only [evalE, bind, Except.bind] at h
    split at h
    · cases h
    · simp only [Except.ok.injEq] at h
      exact ⟨((byteAt _ k : Nat) : Int), by rw [← h, Rat.intCast_natCast]⟩
  | bin op l r ihl ihr =>
    obtain ⟨hop, hl, hr⟩ := hbin _ _ _ hd
    simp only [evalE, bind, Except.bind] at h
    split at h
    · cases h
    · rename_i a ha
      split at h
      · cases h
      · rename_i b hb'
        obtain ⟨x, rfl⟩ := ihl a hl ha
        obtain ⟨y, rfl⟩ := ihr b hr hb'
        exact applyBin_int_closed op hop x y q h

/-! ## byte extraction -/

theorem ediv_emod_of_mask (x A B K : Int) (hA : 0 < A) :
    (x % (A * (B * K))) / A % B = x / A % B := by
  have hx : x = x % (A * (B * K)) + A * (B * (K * (x / (A * (B * K))))) := by
    have := Int.emod_add_mul_ediv x (A * (B * K))
    rw [Int.mul_assoc, Int.mul_assoc] at this
    exact this.symm
  generalize x % (A * (B * K)) = y at hx
  generalize K * (x / (A * (B * K))) = t at hx
  subst hx
  rw [Int.add_mul_ediv_left _ _ (Int.ne_of_gt hA), Int.add_mul_emod_self_left]

theorem byte_mask (x : Int) (n bc : Nat) (h : n + 1 ≤ bc) :
    ((x % (2 : Int) ^ (8 * bc)).toNat / 256 ^ n) % 256 = byteAt x n := by
  unfold byteAt
  have e : (2 : Int) ^ (8 * bc) = 256 ^ n * (256 * 2 ^ (8 * (bc - n - 1))) := by
    have : 8 * bc = 8 * n + (8 + 8 * (bc - n - 1)) := by omega
    rw [this, Int.pow_add, Int.pow_add, Int.pow_mul]; rfl
  have hA : (0 : Int) < 256 ^ n := Int.pow_pos (by decide)
  have hM : (0 : Int) < (2 : Int) ^ (8 * bc) := Int.pow_pos (by decide)
  rw [← ediv_emod_of_mask x _ 256 (2 ^ (8 * (bc - n - 1))) hA, ← e]
  have hy : 0 ≤ x % (2 : Int) ^ (8 * bc) := Int.emod_nonneg _ (Int.ne_of_gt hM)
  generalize x % (2 : Int) ^ (8 * bc) = y at hy
  obtain ⟨m, rfl⟩ := Int.eq_ofNat_of_zero_le hy
  simp only [Int.toNat_natCast]
  have : ((m : Int) / 256 ^ n % 256) = ((m / 256 ^ n % 256 : Nat) : Int) := by
    rw [Int.natCast_emod, Int.natCast_ediv, Int.natCast_pow]; rfl
  rw [this, Int.toNat_natCast]

theorem byteN_spec (x : Int) (n : Nat) : byteNImpl x n = byteAt x n := by
  unfold byteNImpl
  exact byte_mask x n _ (Nat.le_max_right _ _)

theorem byteAt_lt (x : Int) (n : Nat) : byteAt x n < 256 := by
  unfold byteAt
  omega

theorem byteAt_bits (x : Int) (n i : Nat) (hi : i < 8) :
    (byteAt x n).testBit i = bitAt x (8 * n + i) := byteAt_testBit x n i hi

end BV.EvalLemmas
