/-
  Helper lemmas for property C01 (bit packing): refinement of the cursor-based packer `PB`
  against the bit-string specification. Core Lean only.
-/
import BespokeVerif.Model.Bits
namespace BV

/-! ## decidable equality on `Except` (needed for closed `decide +kernel` examples) -/

instance instDecidableEqExcept {ε α} [DecidableEq ε] [DecidableEq α] : DecidableEq (Except ε α)
  | .ok a, .ok b =>
    if h : a = b then isTrue (by rw [h]) else isFalse (fun h' => h (Except.ok.inj h'))
  | .error a, .error b =>
    if h : a = b then isTrue (by rw [h]) else isFalse (fun h' => h (Except.error.inj h'))
  | .ok _, .error _ => isFalse (fun h => nomatch h)
  | .error _, .ok _ => isFalse (fun h => nomatch h)

/-! ## abstraction of a packer state as a bit string -/

/-- the eight bits of a byte, MSB first -/
def byteBits (x : Nat) : List Bool := [7,6,5,4,3,2,1,0].map (fun i => x.testBit i)

/-- the top `k` bits (bit 7 downwards) of a byte, MSB first -/
def topBits (x : Nat) : Nat → List Bool
  | 0 => []
  | k+1 => topBits x k ++ [x.testBit (7 - k)]

/-- abstraction function: the bits written so far -/
def PB.abs (s : PB) : List Bool :=
  s.done.flatMap byteBits ++ topBits s.cur (7 - s.bit).toNat

/-- representation invariant -/
def PB.Inv (s : PB) : Prop :=
  -1 ≤ s.bit ∧ s.bit ≤ 7 ∧ (∀ j : Nat, (j : Int) ≤ s.bit → s.cur.testBit j = false)
    ∧ s.cur < 256 ∧ (∀ x ∈ s.done, x < 256)

theorem PB.init_inv : PB.init.Inv := by
  refine ⟨by decide, by decide, ?_, by decide, ?_⟩
  · intro j _; simp [PB.init]
  · intro x hx; simp [PB.init] at hx

theorem PB.init_abs : PB.init.abs = [] := by
  simp [PB.init, PB.abs, topBits]

theorem byteBits_length (x : Nat) : (byteBits x).length = 8 := by simp [byteBits]

theorem topBits_length (x k : Nat) : (topBits x k).length = k := by
  induction k with
  | zero => rfl
  | succ k ih => simp [topBits, ih]

theorem flatMap_byteBits_length (l : List Nat) : (l.flatMap byteBits).length = 8 * l.length := by
  induction l with
  | nil => rfl
  | cons x xs ih => simp [List.flatMap_cons, byteBits_length, ih]; omega

theorem PB.abs_length (s : PB) : s.abs.length = 8 * s.done.length + (7 - s.bit).toNat := by
  unfold PB.abs
  rw [List.length_append, flatMap_byteBits_length, topBits_length]

theorem topBits_eight (x : Nat) : topBits x 8 = byteBits x := by
  simp [topBits, byteBits]

theorem topBits_congr (x y : Nat) (k : Nat) (hk : k ≤ 8)
    (h : ∀ j, 8 ≤ j + k → j ≤ 7 → x.testBit j = y.testBit j) :
    topBits x k = topBits y k := by
  induction k with
  | zero => rfl
  | succ k ih =>
    simp only [topBits]
    rw [ih (by omega) (fun j h1 h2 => h j (by omega) h2)]
    rw [h (7 - k) (by omega) (by omega)]

theorem setBit_testBit (x k j : Nat) (b : Bool) :
    (x ||| (b.toNat <<< k)).testBit j = (x.testBit j || (b && decide (j = k))) := by
  rw [Nat.testBit_or, Nat.testBit_shiftLeft]
  cases b with
  | false => simp
  | true =>
    simp only [Bool.toNat_true, Bool.true_and]
    by_cases h : j = k
    · subst h; simp
    · by_cases h2 : k ≤ j
      · have : j - k ≠ 0 := by omega
        simp [h, h2, Nat.testBit_one_eq_true_iff_self_eq_zero, this]
      · simp [h, h2]

theorem setBit_lt (x k : Nat) (b : Bool) (hx : x < 256) (hk : k ≤ 7) :
    x ||| (b.toNat <<< k) < 256 := by
  have h256 : (256 : Nat) = 2 ^ 8 := by decide
  rw [h256] at hx ⊢
  apply Nat.or_lt_two_pow hx
  rw [Nat.shiftLeft_eq]
  have h1 : b.toNat ≤ 1 := by cases b <;> simp
  have h2 : 2 ^ k ≤ 2 ^ 7 := Nat.pow_le_pow_right (by decide) hk
  calc b.toNat * 2 ^ k ≤ 1 * 2 ^ 7 := Nat.mul_le_mul h1 h2
    _ < 2 ^ 8 := by decide

/-- core step when the cursor is inside a byte -/
theorem push_inside (c : Nat) (k : Nat) (hk : k ≤ 7) (b : Bool)
    (hz : ∀ j : Nat, j ≤ k → c.testBit j = false) :
    topBits (c ||| (b.toNat <<< k)) (7 - k + 1) = topBits c (7 - k) ++ [b] := by
  simp only [topBits]
  congr 1
  · apply topBits_congr _ _ _ (by omega)
    intro j h1 h2
    rw [setBit_testBit]
    have : j ≠ k := by omega
    simp [this]
  · have : 7 - (7 - k) = k := by omega
    rw [this, setBit_testBit, hz k (Nat.le_refl _)]
    simp

/-- one-bit refinement step -/
theorem pushBit_abs (s : PB) (b : Bool) (h : s.Inv) :
    (s.pushBit b).abs = s.abs ++ [b] ∧ (s.pushBit b).Inv ∧ (s.pushBit b).bit < 7 := by
  obtain ⟨h1, h2, h3, h4, h5⟩ := h
  unfold PB.pushBit PB.abs PB.Inv
  by_cases hneg : s.bit < 0
  · have hb : s.bit = -1 := by omega
    simp only [hneg, if_true]
    refine ⟨?_, ⟨by omega, by omega, ?_, ?_, ?_⟩, by omega⟩
    · simp only [hb]
      have e1 : (7 - (7 - 1 : Int)).toNat = 0 + 1 := by decide
      have e2 : (7 - (-1 : Int)).toNat = 8 := by decide
      have e3 : (7:Int).toNat = 7 := by decide
      rw [e1, e2, e3, topBits_eight]
      simp only [List.flatMap_append, List.flatMap_cons, List.flatMap_nil, List.append_nil, topBits,
        List.nil_append, List.append_assoc]
      congr 2
      rw [setBit_testBit]; simp
    · intro j hj
      have : (7:Int).toNat = 7 := by decide
      rw [this, setBit_testBit]
      have : j ≠ 7 := by omega
      simp [this]
    · have : (7:Int).toNat = 7 := by decide
      rw [this]
      exact setBit_lt 0 7 b (by decide) (by decide)
    · intro x hx
      rcases List.mem_append.mp hx with hx | hx
      · exact h5 x hx
      · simp at hx; omega
  · simp only [hneg, if_false]
    have hk : ∃ k : Nat, s.bit = k ∧ k ≤ 7 := ⟨s.bit.toNat, by omega, by omega⟩
    obtain ⟨k, hk1, hk2⟩ := hk
    refine ⟨?_, ⟨by omega, by omega, ?_, ?_, h5⟩, by omega⟩
    · rw [hk1]
      have e1 : (7 - ((k:Int) - 1)).toNat = 7 - k + 1 := by omega
      have e2 : (7 - (k:Int)).toNat = 7 - k := by omega
      have e3 : (k:Int).toNat = k := by omega
      rw [e1, e2, e3, push_inside s.cur k hk2 b (fun j hj => h3 j (by omega))]
      simp
    · intro j hj
      rw [hk1] at hj
      have e3 : s.bit.toNat = k := by omega
      rw [e3, setBit_testBit, h3 j (by omega)]
      have : j ≠ k := by omega
      simp [this]
    · have e3 : s.bit.toNat = k := by omega
      rw [e3]
      exact setBit_lt s.cur k b h4 hk2

/-- the low `cnt` bits of a byte, most significant first -/
def lowBits (x cnt : Nat) : List Bool := (List.range cnt).reverse.map x.testBit

theorem lowBits_succ (x cnt : Nat) : lowBits x (cnt + 1) = x.testBit cnt :: lowBits x cnt := by
  simp [lowBits, List.range_succ]

theorem pushByteBits_abs (x cnt : Nat) (s : PB) (h : s.Inv) :
    (s.pushByteBits x cnt).abs = s.abs ++ lowBits x cnt ∧ (s.pushByteBits x cnt).Inv
      ∧ (0 < cnt ∨ s.bit < 7 → (s.pushByteBits x cnt).bit < 7) := by
  induction cnt generalizing s with
  | zero => simp [PB.pushByteBits, lowBits, h]
  | succ cnt ih =>
    obtain ⟨a1, a2, a3⟩ := pushBit_abs s (x.testBit cnt) h
    obtain ⟨b1, b2, b3⟩ := ih (s.pushBit (x.testBit cnt)) a2
    simp only [PB.pushByteBits]
    refine ⟨?_, b2, fun _ => b3 (Or.inr a3)⟩
    rw [b1, a1, lowBits_succ]; simp

theorem topBits_zero_ext (x k m : Nat) (hkm : k + m ≤ 8)
    (hz : ∀ j, j + k < 8 → x.testBit j = false) :
    topBits x (k + m) = topBits x k ++ List.replicate m false := by
  induction m with
  | zero => simp
  | succ m ih =>
    rw [← Nat.add_assoc, topBits, ih (by omega), List.replicate_succ', hz (7 - (k + m)) (by omega)]
    simp

theorem padTo8_abs (s : PB) (h : s.Inv) (hb : s.bit < 7) :
    padTo8 s.abs = s.bytes.flatMap byteBits := by
  obtain ⟨h1, h2, h3, h4, h5⟩ := h
  obtain ⟨k, hk⟩ : ∃ k : Nat, k = (7 - s.bit).toNat := ⟨_, rfl⟩
  unfold padTo8
  rw [PB.abs_length, ← hk]
  unfold PB.abs PB.bytes
  rw [← hk, List.flatMap_append, List.append_assoc]
  congr 1
  simp only [List.flatMap_cons, List.flatMap_nil, List.append_nil]
  rw [← topBits_eight]
  have e : (8 - (8 * s.done.length + k) % 8) % 8 = 8 - k := by omega
  rw [e]
  have := topBits_zero_ext s.cur k (8 - k) (by omega) (fun j hj => h3 j (by omega))
  rw [← this]; congr 1; omega

theorem alignIf_abs (s : PB) (a : Bool) (h : s.Inv) :
    (s.alignIf a).abs = (if a then padTo8 s.abs else s.abs) ∧ (s.alignIf a).Inv
      ∧ (s.bit < 7 → a = false → (s.alignIf a).bit < 7) := by
  unfold PB.alignIf
  cases a with
  | false => simp [h]
  | true =>
    by_cases hb : s.bit < 7
    · simp only [Bool.true_and, hb, decide_true, if_true]
      refine ⟨?_, ?_, by simp⟩
      · rw [padTo8_abs s h hb]; simp [PB.abs, PB.bytes, topBits]
      · obtain ⟨h1, h2, h3, h4, h5⟩ := h
        refine ⟨by simp, by simp, by simp, by simp, ?_⟩
        intro x hx
        rcases List.mem_append.mp hx with hx | hx
        · exact h5 x hx
        · simp at hx; omega
    · simp only [Bool.true_and, hb, decide_false, if_true]
      refine ⟨?_, h, by simp⟩
      have : s.bit = 7 := by have := h.2.1; omega
      simp [padTo8, PB.abs_length, this]

theorem byteAt_testBit (v : Int) (k b : Nat) (hb : b < 8) :
    (byteAt v k).testBit b = bitAt v (8 * k + b) := by
  unfold byteAt bitAt
  have e : (2 : Int) ^ (8 * k + b) = 256 ^ k * 2 ^ b := by
    rw [Int.pow_add, Int.pow_mul]; rfl
  have hp : (0 : Int) ≤ 256 ^ k := Int.pow_nonneg (by decide)
  rw [e, ← Int.ediv_ediv_of_nonneg hp, Nat.testBit_eq_decide_div_mod_eq]
  generalize v / 256 ^ k = w
  have hb' : b = 0 ∨ b = 1 ∨ b = 2 ∨ b = 3 ∨ b = 4 ∨ b = 5 ∨ b = 6 ∨ b = 7 := by omega
  have : ((w % 256).toNat / 2 ^ b % 2 = 1) ↔ (w / 2 ^ b % 2 = 1) := by
    rcases hb' with rfl | rfl | rfl | rfl | rfl | rfl | rfl | rfl <;> omega
  rw [Bool.eq_iff_iff]
  simp only [decide_eq_true_eq, beq_iff_eq]
  exact this

/-- the bits emitted by `PB.pushBytes` -/
def pbBits (size firstIdx : Nat) : List Nat → Nat → List Bool
  | [], _ => []
  | x :: xs, idx =>
    lowBits x (if idx = firstIdx then (size + 7) % 8 + 1 else 8) ++ pbBits size firstIdx xs (idx + 1)

theorem pushBytes_abs (size firstIdx : Nat) (xs : List Nat) (idx : Nat) (s : PB) (h : s.Inv) :
    (s.pushBytes size firstIdx xs idx).abs = s.abs ++ pbBits size firstIdx xs idx
      ∧ (s.pushBytes size firstIdx xs idx).Inv
      ∧ (xs ≠ [] ∨ s.bit < 7 → (s.pushBytes size firstIdx xs idx).bit < 7) := by
  induction xs generalizing s idx with
  | nil => simp [PB.pushBytes, pbBits, h]
  | cons x xs ih =>
    simp only [PB.pushBytes, pbBits]
    have hc : 0 < (if idx = firstIdx then (size + 7) % 8 + 1 else 8) := by split <;> omega
    generalize (if idx = firstIdx then (size + 7) % 8 + 1 else 8) = cnt at hc ⊢
    obtain ⟨a1, a2, a3⟩ := pushByteBits_abs x cnt s h
    obtain ⟨b1, b2, b3⟩ := ih (idx + 1) (s.pushByteBits x cnt) a2
    refine ⟨?_, b2, fun _ => b3 (Or.inr (a3 (Or.inl hc)))⟩
    rw [b1, a1]; simp


/-- bits `8k+c-1 … 8k` of `v`, most significant first -/
def segBits (v : Int) (k c : Nat) : List Bool := (List.range c).reverse.map fun b => bitAt v (8 * k + b)

theorem lowBits_byteAt (v : Int) (k c : Nat) (hc : c ≤ 8) : lowBits (byteAt v k) c = segBits v k c := by
  unfold lowBits segBits
  apply List.map_congr_left
  intro b hb
  have : b < c := by simpa using hb
  exact byteAt_testBit v k b (by omega)

theorem pbBits_full (size firstIdx : Nat) (xs : List Nat) (idx : Nat)
    (h : ∀ i, idx ≤ i → i < idx + xs.length → i ≠ firstIdx) :
    pbBits size firstIdx xs idx = xs.flatMap (fun x => lowBits x 8) := by
  induction xs generalizing idx with
  | nil => rfl
  | cons x xs ih =>
    have h0 : idx ≠ firstIdx := h idx (Nat.le_refl _) (by simp)
    simp only [pbBits, h0, if_false, List.flatMap_cons]
    rw [ih (idx + 1) (fun i h1 h2 => h i (by omega) (by simp; omega))]

theorem pbBits_append (size firstIdx : Nat) (xs ys : List Nat) (idx : Nat) :
    pbBits size firstIdx (xs ++ ys) idx
      = pbBits size firstIdx xs idx ++ pbBits size firstIdx ys (idx + xs.length) := by
  induction xs generalizing idx with
  | nil => simp [pbBits]
  | cons x xs ih =>
    simp only [List.cons_append, pbBits, ih, List.length_cons, List.append_assoc]
    congr 3; omega

theorem range_rev_split (v : Int) (l c : Nat) :
    (List.range (8 * l + c)).reverse.map (bitAt v)
      = segBits v l c ++ (List.range (8 * l)).reverse.map (bitAt v) := by
  rw [List.range_add, List.reverse_append, List.map_append]
  congr 1
  simp [segBits, List.map_reverse]

theorem bigBits (v : Int) (l : Nat) :
    (List.range (8 * l)).reverse.map (bitAt v)
      = ((List.range l).reverse.map (byteAt v)).flatMap (fun x => lowBits x 8) := by
  induction l with
  | zero => rfl
  | succ l ih =>
    rw [Nat.mul_succ, range_rev_split, ih, List.range_succ, List.reverse_append]
    simp [lowBits_byteAt]

theorem size_split (n : Nat) (hn : 1 ≤ n) :
    ∃ l, ceil8 n = l + 1 ∧ n = 8 * l + ((n + 7) % 8 + 1) := by
  refine ⟨(n + 7) / 8 - 1, ?_, ?_⟩
  · unfold ceil8; omega
  · omega

theorem pbBits_valueBytes (v : Int) (n : Nat) (little : Bool) :
    pbBits n (if little then ceil8 n - 1 else 0) (valueBytes v (ceil8 n) little) 0
      = fieldBits v n little := by
  by_cases hn : n = 0
  · subst hn; cases little <;> simp [ceil8, valueBytes, pbBits, fieldBits]
  obtain ⟨l, hl, hs⟩ := size_split n (by omega)
  generalize hc : (n + 7) % 8 + 1 = c at hs
  have hc8 : c ≤ 8 := by omega
  cases little with
  | false =>
    simp only [valueBytes, fieldBits, hl, Bool.false_eq_true, if_false]
    rw [List.range_succ, List.reverse_append]
    simp only [List.reverse_cons, List.reverse_nil, List.nil_append, List.singleton_append,
      List.map_cons, pbBits, if_true, hc]
    rw [pbBits_full _ _ _ _ (by intro i h1 h2; omega), lowBits_byteAt _ _ _ hc8, ← bigBits]
    conv => rhs; rw [hs]
    rw [range_rev_split]
  | true =>
    simp only [valueBytes, fieldBits, hl, if_true, Nat.add_sub_cancel]
    rw [List.range_succ, List.map_append, pbBits_append,
      pbBits_full _ _ _ _ (by intro i h1 h2; simp at h2; omega)]
    have e : n - 8 * l = c := by omega
    simp only [List.map_cons, List.map_nil, pbBits, List.length_map, List.length_range,
      Nat.zero_add, if_true, hc, List.append_nil, e]
    rw [lowBits_byteAt _ _ _ hc8]
    congr 1
    rw [List.flatMap_map]
    congr 1
    funext j
    exact lowBits_byteAt v j 8 (Nat.le_refl _)

theorem valueBytes_ne_nil (v : Int) (n : Nat) (little : Bool) (hn : 1 ≤ n) :
    valueBytes v (ceil8 n) little ≠ [] := by
  obtain ⟨l, hl, _⟩ := size_split n hn
  intro h
  have := congrArg List.length h
  cases little <;> simp [valueBytes, hl] at this

theorem appendBits_abs (s : PB) (f : Field) (h : s.Inv) (hf : Fits f.value f.size) :
    ∃ s', s.appendBits f = .ok s'
      ∧ s'.abs = (if f.align then padTo8 s.abs else s.abs) ++ fieldBits f.value f.size f.little
      ∧ s'.Inv ∧ (1 ≤ f.size → s'.bit < 7) := by
  obtain ⟨a1, a2, _⟩ := alignIf_abs s f.align h
  obtain ⟨b1, b2, b3⟩ := pushBytes_abs f.size (if f.little then ceil8 f.size - 1 else 0)
    (valueBytes f.value (ceil8 f.size) f.little) 0 (s.alignIf f.align) a2
  refine ⟨_, by simp only [PB.appendBits, hf, not_true_eq_false, if_false], ?_, b2, ?_⟩
  · rw [b1, a1, pbBits_valueBytes]
  · intro hn
    exact b3 (Or.inl (valueBytes_ne_nil _ _ _ hn))

theorem appendAll_abs (fs : List Field) (s : PB) (h : s.Inv)
    (hf : ∀ f ∈ fs, 1 ≤ f.size ∧ Fits f.value f.size) :
    ∃ s', s.appendAll fs = .ok s' ∧ s'.abs = layout fs s.abs ∧ s'.Inv
      ∧ (fs ≠ [] ∨ s.bit < 7 → s'.bit < 7) := by
  induction fs generalizing s with
  | nil => exact ⟨s, rfl, rfl, h, by simp⟩
  | cons f fs ih =>
    obtain ⟨hf1, hf2⟩ := hf f (by simp)
    obtain ⟨s1, a1, a2, a3, a4⟩ := appendBits_abs s f h hf2
    obtain ⟨s2, b1, b2, b3, b4⟩ := ih s1 a3 (fun g hg => hf g (by simp [hg]))
    refine ⟨s2, ?_, ?_, b3, fun _ => b4 (Or.inr (a4 hf1))⟩
    · simp only [PB.appendAll, a1]; exact b1
    · rw [b2, a2]; rfl

theorem bitsToNat_byteBits (x : Nat) (hx : x < 256) : bitsToNat (byteBits x) = x := by
  simp only [byteBits, List.map_cons, List.map_nil, bitsToNat, List.length_cons, List.length_nil,
    Nat.toNat_testBit]
  omega

theorem pack8_flatMap_byteBits (l : List Nat) (fuel : Nat) (hfuel : l.length ≤ fuel)
    (hl : ∀ x ∈ l, x < 256) : pack8 fuel (l.flatMap byteBits) = l := by
  induction l generalizing fuel with
  | nil => cases fuel <;> simp [pack8]
  | cons x xs ih =>
    cases fuel with
    | zero => simp at hfuel
    | succ fuel =>
      have hlen : (byteBits x).length = 8 := byteBits_length x
      rw [List.flatMap_cons]
      have hne : byteBits x ++ xs.flatMap byteBits ≠ [] := by
        intro h; have := congrArg List.length h; simp [hlen] at this
      rw [pack8]
      · rw [List.take_left' hlen, List.drop_left' hlen, bitsToNat_byteBits x (hl x (by simp)),
          ih fuel (by simpa using hfuel) (fun y hy => hl y (by simp [hy]))]
      · exact hne

theorem pack8_length (fuel : Nat) (bits : List Bool) (hfuel : bits.length ≤ fuel) :
    (pack8 fuel bits).length = ceil8 bits.length := by
  induction fuel generalizing bits with
  | zero =>
    have : bits = [] := List.length_eq_zero_iff.mp (by omega)
    subst this; simp [pack8, ceil8]
  | succ fuel ih =>
    cases bits with
    | nil => simp [pack8, ceil8]
    | cons b bs =>
      rw [pack8, List.length_cons, ih _ (by simp at hfuel ⊢; omega)]
      · simp only [ceil8, List.length_drop, List.length_cons]; omega
      · simp

theorem fieldBits_length' (v : Int) (n : Nat) (little : Bool) :
    (fieldBits v n little).length = n := by
  cases little with
  | false => simp [fieldBits]
  | true =>
    have hsum : ∀ m : Nat, (List.map (fun (_ : Nat) => 8) (List.range m)).sum = 8 * m := by
      intro m; induction m with
      | zero => rfl
      | succ m ih => simp [List.range_succ, ih]; omega
    simp [fieldBits, hsum, ceil8]
    omega

theorem padTo8_length (bits : List Bool) :
    (padTo8 bits).length = bits.length + (8 - bits.length % 8) % 8 := by
  simp [padTo8]

theorem layout_length (fs : List Field) (acc : List Bool) :
    (layout fs acc).length = totalBits fs acc.length := by
  induction fs generalizing acc with
  | nil => rfl
  | cons f fs ih =>
    simp only [layout, totalBits, ih, List.length_append, fieldBits_length']
    congr 2
    cases f.align with
    | false => simp
    | true =>
      simp only [if_true, Bool.true_and, padTo8_length, decide_eq_true_eq]
      split <;> omega

theorem layout_append (fs gs : List Field) (acc : List Bool) :
    layout (fs ++ gs) acc = layout gs (layout fs acc) := by
  induction fs generalizing acc with
  | nil => rfl
  | cons f fs ih => simp only [List.cons_append, layout, ih]

theorem ceil8_padTo8 (bits : List Bool) : ceil8 (padTo8 bits).length = ceil8 bits.length := by
  rw [padTo8_length]; unfold ceil8; omega

theorem bytes_eq_pack8 (s : PB) (h : s.Inv) (hb : s.bit < 7) :
    pack8 (padTo8 s.abs).length (padTo8 s.abs) = s.bytes := by
  rw [padTo8_abs s h hb]
  apply pack8_flatMap_byteBits
  · rw [flatMap_byteBits_length]; omega
  · intro x hx
    obtain ⟨_, _, _, h4, h5⟩ := h
    rcases List.mem_append.mp hx with hx | hx
    · exact h5 x hx
    · simp at hx; omega

theorem byteSizeOf_eq_ceil' (fs : List Field) : byteSizeOf fs = ceil8 (layout fs []).length := by
  rw [layout_length]; rfl

theorem specBytes_length (fs : List Field) : (specBytes fs).length = byteSizeOf fs := by
  unfold specBytes
  simp only
  rw [pack8_length _ _ (Nat.le_refl _), ceil8_padTo8, byteSizeOf_eq_ceil']

theorem getBytes_eq_spec' (fs : List Field) (hne : fs ≠ [])
    (h : ∀ f ∈ fs, 1 ≤ f.size ∧ Fits f.value f.size) :
    getBytes fs = .ok (some (specBytes fs)) := by
  obtain ⟨s, a1, a2, a3, a4⟩ := appendAll_abs fs PB.init PB.init_inv h
  have hb := a4 (Or.inl hne)
  rw [PB.init_abs] at a2
  have hs : specBytes fs = s.bytes := by
    unfold specBytes; simp only; rw [← a2]; exact bytes_eq_pack8 s a3 hb
  have hl : s.bytes.length = byteSizeOf fs := by rw [← hs, specBytes_length]
  unfold getBytes
  rw [a1]
  simp [hl, hs, bind, Except.bind]

/-- the packer fails exactly when some field value does not fit -/
theorem appendAll_error_iff (fs : List Field) (s : PB) :
    (∃ e, s.appendAll fs = .error e) ↔ ∃ f ∈ fs, ¬ Fits f.value f.size := by
  induction fs generalizing s with
  | nil => simp [PB.appendAll]
  | cons f fs ih =>
    by_cases hf : Fits f.value f.size
    · simp only [PB.appendAll, PB.appendBits, hf, not_true_eq_false, if_false]
      simp only [bind, Except.bind]
      rw [ih]; simp [hf]
    · simp only [PB.appendAll, PB.appendBits, hf, not_false_eq_true, if_true]
      simp [bind, Except.bind, hf]

theorem appendAll_error_kind (fs : List Field) (s : PB) (e : Err) (h : s.appendAll fs = .error e) :
    e = .fieldOverflow := by
  induction fs generalizing s with
  | nil => simp [PB.appendAll] at h
  | cons f fs ih =>
    by_cases hf : Fits f.value f.size
    · simp only [PB.appendAll, PB.appendBits, hf, not_true_eq_false, if_false] at h
      exact ih _ h
    · simp only [PB.appendAll, PB.appendBits, hf, not_false_eq_true, if_true] at h
      simp [bind, Except.bind] at h
      exact h.symm

theorem getBytes_error (fs : List Field) (e : Err) :
    getBytes fs = .error e ↔ PB.init.appendAll fs = .error e := by
  unfold getBytes
  cases h : PB.init.appendAll fs with
  | error e' => simp [bind, Except.bind]
  | ok s =>
    simp only [bind, Except.bind]
    split <;> simp

theorem foldl_cons_opt (g : OpParts → Option Field) (step : List Field → OpParts → List Field)
    (h : ∀ acc o, step acc o = (g o).toList ++ acc) (ops : List OpParts) (acc : List Field) :
    ops.foldl step acc = (ops.filterMap g).reverse ++ acc := by
  induction ops generalizing acc with
  | nil => rfl
  | cons o os ih =>
    rw [List.foldl_cons, ih, h, List.filterMap_cons]
    cases g o <;> simp

/-- the `insert(0, …)` loop of the implementation builds the reversed prefix group -/
theorem prefixCodes_eq (ops : List OpParts) :
    ops.foldl (fun acc o => match o.code with
      | some (f, .prefix) => f :: acc | _ => acc) [] = prefixGroup ops := by
  unfold prefixGroup
  rw [foldl_cons_opt (g := fun o => match o.code with | some (f, .prefix) => some f | _ => none)]
  · simp only [List.append_nil]; rfl
  · intro acc o
    split <;> simp_all

theorem fieldOrder_eq_specOrder' (ops : List OpParts) (opcode : Field) (sfx : Option Field)
    (revArgs revCodes : Bool) :
    fieldOrder ops opcode sfx revArgs revCodes = specOrder ops opcode sfx revArgs revCodes := by
  have h := prefixCodes_eq ops
  unfold fieldOrder specOrder
  simp only
  rw [← h]
  rfl

theorem flatMap_range_length8 {α} (f : Nat → List α) (hf : ∀ j, (f j).length = 8) (m : Nat) :
    ((List.range m).flatMap f).length = 8 * m := by
  induction m with
  | zero => rfl
  | succ m ih => rw [List.range_succ, List.flatMap_append, List.length_append, ih]; simp [hf]; omega

theorem flatMap_range_getElem? {α} (f : Nat → List α) (hf : ∀ j, (f j).length = 8) (m j b : Nat)
    (hj : j < m) (hb : b < 8) : ((List.range m).flatMap f)[8 * j + b]? = (f j)[b]? := by
  induction m with
  | zero => omega
  | succ m ih =>
    rw [List.range_succ, List.flatMap_append]
    have hl := flatMap_range_length8 f hf m
    by_cases hjm : j < m
    · rw [List.getElem?_append_left (by omega)]; exact ih hjm
    · have : j = m := by omega
      subst this
      rw [List.getElem?_append_right (by omega), hl]
      simp

theorem revRange_getElem? {α} (g : Nat → α) (c b : Nat) (hb : b < c) :
    ((List.range c).reverse.map g)[b]? = some (g (c - 1 - b)) := by
  have hlen : b < ((List.range c).reverse.map g).length := by simpa using hb
  rw [List.getElem?_eq_getElem hlen]
  simp [List.getElem_reverse]

theorem fieldBits_little_low' (v : Int) (n j b : Nat) (hj : j + 1 < ceil8 n) (hb : b < 8) :
    (fieldBits v n true)[8 * j + b]? = some (bitAt v (8 * j + (7 - b))) := by
  simp only [fieldBits, if_true]
  have hf : ∀ j, ((List.range 8).reverse.map fun b => bitAt v (8 * j + b)).length = 8 := by simp
  rw [List.getElem?_append_left (by rw [flatMap_range_length8 _ hf]; omega),
    flatMap_range_getElem? _ hf _ _ _ (by omega) hb, revRange_getElem? _ _ _ hb]

theorem fieldBits_little_top' (v : Int) (n b : Nat) (_hn : 1 ≤ n) (hb : b < n - 8 * (ceil8 n - 1)) :
    (fieldBits v n true)[8 * (ceil8 n - 1) + b]? = some (bitAt v (n - 1 - b)) := by
  simp only [fieldBits, if_true]
  have hf : ∀ j, ((List.range 8).reverse.map fun b => bitAt v (8 * j + b)).length = 8 := by simp
  rw [List.getElem?_append_right (by rw [flatMap_range_length8 _ hf]; omega),
    flatMap_range_length8 _ hf, Nat.add_sub_cancel_left, revRange_getElem? _ _ _ hb]
  congr 2
  omega

end BV
