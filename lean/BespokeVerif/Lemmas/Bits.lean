import BespokeVerif.Model.Bits
