/-
  Lemmas about the text front end (`Model/Parse.lean`): comment removal, white-space trimming, and the
  "a source line is the sequence of its statements" structure of `parseStmts` (label in front of a
  statement, zone directive followed by statements, origin directive followed by a label).
-/
import BespokeVerif.Model.Parse
namespace BV

/-! ## comment removal -/

/-- characters that neither start a comment nor open a literal -/
def PlainCh (c : Char) : Prop := c ≠ ';' ∧ isQuote c = false

theorem stripComment_plain_append (a b : List Char) (h : ∀ c ∈ a, PlainCh c) :
    stripComment none (a ++ b) = a ++ stripComment none b := by
  induction a with
  | nil => rfl
  | cons c a ih =>
    have hc := h c (List.mem_cons_self ..)
    have ha : ∀ x ∈ a, PlainCh x := fun x hx => h x (List.mem_cons_of_mem _ hx)
    have h1 : (c == ';') = false := by simpa using hc.1
    simp only [List.cons_append, stripComment, h1, hc.2, Bool.false_eq_true, if_false, ih ha]

/-- inside a literal opened by `q` every character up to the closing quote is kept, `;` included -/
theorem stripComment_inside (q : Char) (body rest : List Char) (hq : q ≠ '\\') (hb : ∀ c ∈ body, c ≠ q ∧ c ≠ '\\') :
    stripComment (some (q, false)) (body ++ q :: rest) = body ++ q :: stripComment none rest := by
  induction body with
  | nil => simp [stripComment, hq]
  | cons c body ih =>
    have hc := hb c (List.mem_cons_self ..)
    have hb' : ∀ x ∈ body, x ≠ q ∧ x ≠ '\\' := fun x hx => hb x (List.mem_cons_of_mem _ hx)
    have h1 : (c == '\\') = false := by simpa using hc.2
    have h2 : (c == q) = false := by simpa using hc.1
    simp only [List.cons_append, stripComment, Bool.false_eq_true, if_false, h1, h2, ih hb']

theorem stripComment_idem (m : QMode) (l : List Char) :
    stripComment m (stripComment m l) = stripComment m l := by
  induction l generalizing m with
  | nil => cases m <;> rfl
  | cons c l ih =>
    cases m with
    | none =>
      by_cases h1 : c == ';'
      · simp [stripComment, h1]
      · by_cases h2 : isQuote c
        · simp only [stripComment, h1, h2, Bool.false_eq_true, if_false, if_true, ih]
        · simp only [stripComment, h1, h2, Bool.false_eq_true, if_false, ih]
    | some qe =>
      obtain ⟨q, esc⟩ := qe
      by_cases he : esc
      · subst he; simp only [stripComment, if_true, ih]
      · have he' : esc = false := by simpa using he
        subst he'
        by_cases h1 : c == '\\'
        · simp only [stripComment, h1, Bool.false_eq_true, if_false, if_true, ih]
        · by_cases h2 : c == q
          · simp only [stripComment, h1, h2, Bool.false_eq_true, if_false, if_true, ih]
          · simp only [stripComment, h1, h2, Bool.false_eq_true, if_false, ih]

/-! ## trimming -/

theorem ptrimL_idem (l : List Char) : ptrimL (ptrimL l) = ptrimL l := by
  unfold ptrimL
  induction l with
  | nil => rfl
  | cons c l ih =>
    by_cases h : isSpaceChar c
    · simp [h, ih]
    · simp [h]

theorem ptrimL_cons_nonspace (c : Char) (l : List Char) (h : isSpaceChar c = false) : ptrimL (c :: l) = c :: l := by
  simp [ptrimL, h]

/-- trimming on the right does not reach across a character that is not white space -/
theorem ptrimR_append_cons (a b : List Char) (c : Char) (h : isSpaceChar c = false) :
    ptrimR (a ++ c :: b) = a ++ c :: ptrimR b := by
  unfold ptrimR ptrimL
  rw [List.reverse_append, List.reverse_cons, List.append_assoc, List.dropWhile_append]
  by_cases hb : (List.dropWhile isSpaceChar b.reverse).isEmpty
  · have hb' : List.dropWhile isSpaceChar b.reverse = [] := by simpa using hb
    simp [hb', h]
  · simp [hb]

theorem ptrimR_nil : ptrimR [] = [] := rfl

theorem ptrimR_cons (c : Char) (l : List Char) :
    ptrimR (c :: l) = if isSpaceChar c && (ptrimR l).isEmpty then [] else c :: ptrimR l := by
  unfold ptrimR ptrimL
  rw [List.reverse_cons, List.dropWhile_append]
  by_cases hb : (List.dropWhile isSpaceChar l.reverse).isEmpty
  · have hb' : List.dropWhile isSpaceChar l.reverse = [] := by simpa using hb
    by_cases hc : isSpaceChar c <;> simp [hb', hc]
  · simp [hb]

theorem ptrimR_idem (l : List Char) : ptrimR (ptrimR l) = ptrimR l := by
  unfold ptrimR
  rw [List.reverse_reverse, ptrimL_idem]

theorem ptrimL_ptrimR_comm (l : List Char) : ptrimL (ptrimR l) = ptrimR (ptrimL l) := by
  induction l with
  | nil => rfl
  | cons c l ih =>
    by_cases hc : isSpaceChar c
    · have h1 : ptrimL (c :: l) = ptrimL l := by simp [ptrimL, hc]
      rw [h1, ptrimR_cons]
      by_cases he : (ptrimR l).isEmpty
      · have he' : ptrimR l = [] := by simpa using he
        simp only [hc, he, Bool.and_self, if_true]
        rw [← ih, he']
      · simp only [hc, he, Bool.and_false, Bool.false_eq_true, if_false]
        have h2 : ptrimL (c :: ptrimR l) = ptrimL (ptrimR l) := by simp [ptrimL, hc]
        rw [h2, ih]
    · have hc' : isSpaceChar c = false := by simpa using hc
      rw [ptrimL_cons_nonspace c l hc', ptrimR_cons]
      simp only [hc', Bool.false_and, Bool.false_eq_true, if_false]
      exact ptrimL_cons_nonspace c _ hc'

theorem ptrim_idem (l : List Char) : ptrim (ptrim l) = ptrim l := by
  unfold ptrim
  rw [ptrimL_ptrimR_comm, ptrimL_idem, ptrimR_idem]

theorem ptrim_ptrimR (l : List Char) : ptrim (ptrimR l) = ptrim l := by
  unfold ptrim
  rw [ptrimL_ptrimR_comm, ptrimR_idem]

theorem ptrim_ptrimL (l : List Char) : ptrim (ptrimL l) = ptrim l := by
  unfold ptrim
  rw [ptrimL_idem]

/-! ## a line is the sequence of its statements -/

/-- `parseStmts` reads its text modulo surrounding white space -/
theorem parseStmts_trim (cfg : PCfg) (f : Nat) (t : List Char) : parseStmts cfg f (ptrim t) = parseStmts cfg f t := by
  cases f with
  | zero => simp [parseStmts]
  | succ f =>
    rw [parseStmts, parseStmts]
    simp only [ptrim_idem]

theorem parseStmts_ptrimR (cfg : PCfg) (f : Nat) (t : List Char) : parseStmts cfg f (ptrimR t) = parseStmts cfg f t := by
  rw [← parseStmts_trim cfg f (ptrimR t), ptrim_ptrimR, parseStmts_trim]

theorem parseStmts_ptrimL (cfg : PCfg) (f : Nat) (t : List Char) : parseStmts cfg f (ptrimL t) = parseStmts cfg f t := by
  rw [← parseStmts_trim cfg f (ptrimL t), ptrim_ptrimL, parseStmts_trim]

theorem nameChar_not_space (c : Char) (h : isNameChar c = true) : isSpaceChar c = false := by
  cases hs : isSpaceChar c with
  | false => rfl
  | true =>
    simp only [isSpaceChar, Bool.or_eq_true, beq_iff_eq] at hs
    rcases hs with rfl | rfl <;> simp [isNameChar, isWordChar] at h

/-- a name: non-empty, made of name characters (letters, digits, `_`, `.`) -/
def NameText (w : List Char) : Prop := w ≠ [] ∧ ∀ c ∈ w, isNameChar c = true

theorem takeName_name (w rest : List Char) (hw : ∀ c ∈ w, isNameChar c = true) (hr : ∀ c, rest.head? = some c → isNameChar c = false) :
    takeName (w ++ rest) = (w, rest) := by
  unfold takeName
  induction w with
  | nil =>
    cases rest with
    | nil => rfl
    | cons c r => have := hr c rfl; simp [this]
  | cons c w ih =>
    have hc := hw c (List.mem_cons_self ..)
    have ih' := ih (fun x hx => hw x (List.mem_cons_of_mem _ hx))
    simp only [List.cons_append, List.takeWhile_cons, List.dropWhile_cons, hc, if_true]
    simp only [Prod.mk.injEq] at ih' ⊢
    exact ⟨by rw [ih'.1], ih'.2⟩

theorem ptrim_name_colon (w rest : List Char) (hw : NameText w) :
    ptrim (w ++ ':' :: rest) = w ++ ':' :: ptrimR rest := by
  obtain ⟨hne, hall⟩ := hw
  obtain _ | ⟨c0, w'⟩ := w
  · contradiction
  have h0 := nameChar_not_space c0 (hall c0 (List.mem_cons_self ..))
  unfold ptrim
  rw [List.cons_append, ptrimL_cons_nonspace _ _ h0, ← List.cons_append, ptrimR_append_cons _ _ ':' (by decide)]

/-- a label in front of a statement: the line is the label followed by the statements of the rest -/
theorem parseStmts_label_front (cfg : PCfg) (f : Nat) (w rest : List Char) (hw : NameText w) :
    parseStmts cfg (f + 1) (w ++ ':' :: rest) =
      (do let more ← parseStmts cfg f rest; .ok (.label (String.ofList w) :: more)) := by
  have ht := ptrim_name_colon w rest hw
  obtain ⟨hne, hall⟩ := hw
  have hn : takeName (w ++ ':' :: ptrimR rest) = (w, ':' :: ptrimR rest) :=
    takeName_name w _ hall (by intro c hc; simp at hc; subst hc; decide)
  obtain _ | ⟨c0, w'⟩ := w
  · contradiction
  rw [parseStmts]
  simp only [ht]
  simp only [List.cons_append] at hn ⊢
  simp only [hn]
  simp [parseStmts_ptrimR]

theorem lowerS_eq (l : List Char) : lowerS l = String.ofList (l.map Char.toLower) := by
  unfold lowerS String.toLower
  rw [String.map_eq_internal]
  simp

theorem takeWhile_append_stop (p : Char → Bool) (w rest : List Char) (hw : ∀ c ∈ w, p c = true)
    (hr : ∀ c, rest.head? = some c → p c = false) :
    (w ++ rest).takeWhile p = w ∧ (w ++ rest).dropWhile p = rest := by
  induction w with
  | nil =>
    cases rest with
    | nil => exact ⟨rfl, rfl⟩
    | cons c r => have := hr c rfl; simp [this]
  | cons c w ih =>
    have hc := hw c (List.mem_cons_self ..)
    have ih' := ih (fun x hx => hw x (List.mem_cons_of_mem _ hx))
    simp only [List.cons_append, List.takeWhile_cons, List.dropWhile_cons, hc, if_true]
    exact ⟨by rw [ih'.1], ih'.2⟩

theorem wordChar_not_space (c : Char) (h : isWordChar c = true) : isSpaceChar c = false :=
  nameChar_not_space c (by simp [isNameChar, h])

theorem ptrimR_append_last (a b : List Char) (c : Char) (hl : a.getLast? = some c) (hc : isSpaceChar c = false) :
    ptrimR (a ++ b) = a ++ ptrimR b := by
  obtain ⟨a', rfl⟩ : ∃ a', a = a' ++ [c] := by
    rcases List.eq_nil_or_concat a with rfl | ⟨a', x, rfl⟩
    · simp at hl
    · simp at hl; subst hl; exact ⟨a', by simp⟩
  rw [List.append_assoc, List.singleton_append, ptrimR_append_cons _ _ _ hc, List.append_assoc, List.singleton_append]

theorem head_ptrimR (l : List Char) (c : Char) (h : (ptrimR l).head? = some c) : l.head? = some c := by
  cases l with
  | nil => simp [ptrimR_nil] at h
  | cons x r =>
    rw [ptrimR_cons] at h
    split at h
    · simp at h
    · simpa using h

/-- a zone switch followed by further statements on the same line: the line is the directive
    followed by the statements of the rest (which therefore belong to the newly selected zone, like
    statements on the following lines) -/
theorem parseStmts_memzone_front (cfg : PCfg) (f : Nat) (d z rest : List Char)
    (hd : NameText d) (hdot : d.head? = some '.') (hlow : lowerS d = ".memzone")
    (hz : z ≠ [] ∧ ∀ c ∈ z, isWordChar c = true) (hr : ∀ c, rest.head? = some c → isWordChar c = false) :
    parseStmts cfg (f + 1) (d ++ ' ' :: z ++ rest) =
      (do let more ← parseStmts cfg f rest; .ok (.memzone (String.ofList z) :: more)) := by
  obtain ⟨hzne, hzall⟩ := hz
  obtain ⟨cz, hcz⟩ : ∃ cz, z.getLast? = some cz := by
    cases hzl : z.getLast? with
    | none => simp at hzl; contradiction
    | some cz => exact ⟨cz, rfl⟩
  have hczw : isWordChar cz = true := hzall cz (List.mem_of_getLast? hcz)
  obtain ⟨hdne, hdall⟩ := hd
  obtain _ | ⟨c0, d'⟩ := d
  · contradiction
  have hc0 : c0 = '.' := by simpa using hdot
  subst hc0
  -- trimming
  have ht : ptrim (('.' :: d') ++ ' ' :: z ++ rest) = ('.' :: d') ++ ' ' :: z ++ ptrimR rest := by
    unfold ptrim
    rw [List.cons_append, List.cons_append, ptrimL_cons_nonspace _ _ (by decide)]
    have : '.' :: (d' ++ ' ' :: z ++ rest) = ('.' :: d' ++ ' ' :: z) ++ rest := by simp
    rw [this, ptrimR_append_last _ _ cz (by simp [List.getLast?_append, hcz, List.getLast?_cons]) (wordChar_not_space _ hczw)]
    simp
  have hn : takeName (('.' :: d') ++ ' ' :: (z ++ ptrimR rest)) = ('.' :: d', ' ' :: (z ++ ptrimR rest)) :=
    takeName_name _ _ hdall (by intro c hc; simp at hc; subst hc; decide)
  obtain _ | ⟨z0, z'⟩ := z
  · contradiction
  have hz0 : isSpaceChar z0 = false := wordChar_not_space _ (hzall z0 (List.mem_cons_self ..))
  have hstop : ∀ c, (ptrimR rest).head? = some c → isWordChar c = false := fun c hc => hr c (head_ptrimR _ _ hc)
  have htw := takeWhile_append_stop isWordChar (z0 :: z') (ptrimR rest) hzall hstop
  rw [parseStmts]
  simp only [ht]
  simp only [List.cons_append, List.append_assoc] at hn ⊢
  simp only [hn, hlow]
  have hb : List.dropWhile isSpaceChar (' ' :: z0 :: (z' ++ ptrimR rest)) = z0 :: (z' ++ ptrimR rest) := by
    rw [List.dropWhile_cons_of_pos (by decide), List.dropWhile_cons_of_neg (by simp [hz0])]
  have htw1 : List.takeWhile isWordChar (z0 :: (z' ++ ptrimR rest)) = z0 :: z' := by simpa using htw.1
  simp [ptrimL, hb, htw1, parseStmts_ptrimR]

/-! ## an origin directive followed by a label on the same line -/

/-- text of a directive argument that cannot be mistaken for the start of a label definition:
    no white space, no colon (and no quote) -/
def ArgText (own : List Char) : Prop := own ≠ [] ∧ ∀ c ∈ own, isSpaceChar c = false ∧ c ≠ ':' ∧ c ≠ '"'

theorem dropWhile_word_no_colon (x y : List Char) (hx : ∀ c ∈ x, c ≠ ':') :
    ((x ++ ' ' :: y).dropWhile isWordChar).head? ≠ some ':' := by
  induction x with
  | nil => simp [show isWordChar ' ' = false by decide]
  | cons c x ih =>
    have ih' := ih (fun a ha => hx a (List.mem_cons_of_mem _ ha))
    rw [List.cons_append, List.dropWhile_cons]
    split
    · exact ih'
    · simp; exact hx c (List.mem_cons_self ..)

theorem drop_takeWhile_length (p : Char → Bool) (l : List Char) : l.drop (l.takeWhile p).length = l.dropWhile p := by
  induction l with
  | nil => rfl
  | cons c l ih =>
    by_cases h : p c <;> simp [h, ih]

theorem startsLabelDef_arg (own y : List Char) (h : ∀ c ∈ own, c ≠ ':') : startsLabelDef (own ++ ' ' :: y) = false := by
  unfold startsLabelDef
  cases own with
  | nil =>
    simp [show isWordChar ' ' = false by decide]
  | cons c own =>
    by_cases hc : c = '.'
    · subst hc
      have h' : ∀ a ∈ own, a ≠ ':' := fun a ha => h a (List.mem_cons_of_mem _ ha)
      have := dropWhile_word_no_colon own y h'
      simp only [List.cons_append, List.head?_cons, beq_self_eq_true, if_true, List.tail_cons, drop_takeWhile_length]
      simp [this]
    · have := dropWhile_word_no_colon (c :: own) y h
      have hh : ((c :: own ++ ' ' :: y).head? == some '.') = false := by simp [hc]
      simp only [hh, Bool.false_eq_true, if_false, drop_takeWhile_length]
      rw [List.cons_append] at this
      simp [this]

theorem cutAtLabelDef_run (own after acc : List Char) (hown : ∀ c ∈ own, isSpaceChar c = false)
    (hafter : startsLabelDef (ptrimL after) = true) :
    cutAtLabelDef acc (own ++ ' ' :: after) = (acc.reverse ++ own, after) := by
  induction own generalizing acc with
  | nil => simp [cutAtLabelDef, hafter, show isSpaceChar ' ' = true by decide]
  | cons c own ih =>
    have hc := hown c (List.mem_cons_self ..)
    rw [List.cons_append, cutAtLabelDef]
    simp only [hc, Bool.false_and, Bool.false_eq_true, if_false]
    rw [ih _ (fun a ha => hown a (List.mem_cons_of_mem _ ha))]
    simp

theorem cutAtLabelDef_arg (own after : List Char) (hown : ArgText own) (hafter : startsLabelDef (ptrimL after) = true) :
    cutAtLabelDef [] (' ' :: own ++ ' ' :: after) = (' ' :: own, after) := by
  obtain ⟨hne, hall⟩ := hown
  obtain _ | ⟨o0, own'⟩ := own
  · contradiction
  have h0 : isSpaceChar o0 = false := (hall o0 (List.mem_cons_self ..)).1
  have hnl : startsLabelDef (ptrimL (o0 :: own' ++ ' ' :: after)) = false := by
    rw [List.cons_append, ptrimL_cons_nonspace _ _ h0, ← List.cons_append]
    exact startsLabelDef_arg _ _ (fun c hc => (hall c hc).2.1)
  rw [List.cons_append, cutAtLabelDef]
  simp only [hnl, Bool.and_false, Bool.false_eq_true, if_false]
  rw [cutAtLabelDef_run _ _ _ (fun c hc => (hall c hc).1) hafter]
  simp

/-- an origin directive followed by a label definition on the same line: the directive's argument
    ends in front of the label, and the line is the directive followed by the statements of the rest
    (text without trailing white space, as `parseLine` hands it over) -/
theorem parseStmts_org_label (cfg : PCfg) (f : Nat) (d own after : List Char)
    (hd : NameText d) (hdot : d.head? = some '.') (hlow : lowerS d = ".org")
    (hown : ArgText own) (hafter : startsLabelDef (ptrimL after) = true) (hrt : ptrimR after = after) :
    parseStmts cfg (f + 1) (d ++ ' ' :: own ++ ' ' :: after) =
      (do let e ← parseExprText own
          let more ← parseStmts cfg f after
          .ok (.org e none :: more)) := by
  have hane : after ≠ [] := by
    intro h; subst h; simp [ptrimL, startsLabelDef] at hafter
  obtain ⟨hone, hoall⟩ := hown
  obtain ⟨co, hco⟩ : ∃ co, own.getLast? = some co := by
    cases h : own.getLast? with
    | none => simp at h; contradiction
    | some co => exact ⟨co, rfl⟩
  have hcos : isSpaceChar co = false := (hoall co (List.mem_of_getLast? hco)).1
  have hcoq : co ≠ '"' := (hoall co (List.mem_of_getLast? hco)).2.2
  obtain ⟨hdne, hdall⟩ := hd
  obtain _ | ⟨c0, d'⟩ := d
  · contradiction
  have hc0 : c0 = '.' := by simpa using hdot
  subst hc0
  have ht : ptrim (('.' :: d') ++ ' ' :: own ++ ' ' :: after) = ('.' :: d') ++ ' ' :: own ++ ' ' :: after := by
    unfold ptrim
    rw [List.cons_append, List.cons_append, ptrimL_cons_nonspace _ _ (by decide)]
    have : '.' :: (d' ++ ' ' :: own ++ ' ' :: after) = ('.' :: d' ++ ' ' :: own) ++ (' ' :: after) := by simp
    rw [this, ptrimR_append_last _ _ co (by simp [List.getLast?_append, hco, List.getLast?_cons]) hcos, ptrimR_cons, hrt]
    simp [hane]
  have hn : takeName (('.' :: d') ++ ' ' :: (own ++ ' ' :: after)) = ('.' :: d', ' ' :: (own ++ ' ' :: after)) :=
    takeName_name _ _ hdall (by intro c hc; simp at hc; subst hc; decide)
  have hcut := cutAtLabelDef_arg own after ⟨hone, hoall⟩ hafter
  have hown_trim : ptrim (' ' :: own) = own := by
    obtain _ | ⟨o0, own'⟩ := own
    · contradiction
    have h0 : isSpaceChar o0 = false := (hoall o0 (List.mem_cons_self ..)).1
    unfold ptrim
    have : ptrimL (' ' :: o0 :: own') = o0 :: own' := by
      simp [ptrimL, h0, show isSpaceChar ' ' = true by decide]
    rw [this]
    have := ptrimR_append_last (o0 :: own') [] co hco hcos
    simpa [ptrimR_nil] using this
  rw [parseStmts]
  simp only [ht]
  simp only [List.cons_append, List.append_assoc] at hn hcut ⊢
  simp only [hn, hlow]
  simp only [hcut, hown_trim]
  rw [hco]
  simp [hcoq]
  cases parseExprText own <;> simp [bind, Except.bind]

/-! ## whole lines: comments, blank lines; consecutive instructions on one line -/


theorem stripComment_plain (s : List Char) (h : ∀ x ∈ s, PlainCh x) : stripComment none s = s := by
  have := stripComment_plain_append s [] h
  simpa [stripComment] using this

/-- a trailing comment carries no meaning for the statements of a line -/
theorem parseLine_comment (cfg : PCfg) (s c : List Char) (h : ∀ x ∈ s, x ≠ ';' ∧ isQuote x = false) :
    parseLine cfg (s ++ ';' :: c) = parseLine cfg s := by
  unfold parseLine
  rw [stripComment_plain_append s _ h, stripComment_plain s h]
  simp [stripComment]

/-- a blank line has no statements -/
theorem parseLine_blank (cfg : PCfg) (l : List Char) (h : ∀ c ∈ l, isSpaceChar c = true) : parseLine cfg l = .ok [] := by
  unfold parseLine
  have hs : stripComment none l = l := stripComment_plain l (fun x hx => by
    have := h x hx
    constructor
    · intro he; subst he; simp [isSpaceChar] at this
    · cases hq : isQuote x with
      | false => rfl
      | true =>
        simp only [isSpaceChar, Bool.or_eq_true, beq_iff_eq] at this
        rcases this with rfl | rfl <;> simp [isQuote] at hq)
  have ht : ptrim l = [] := by
    unfold ptrim ptrimL
    have : List.dropWhile isSpaceChar l = [] := by
      clear hs
      induction l with
      | nil => rfl
      | cons c l ih =>
        rw [List.dropWhile_cons_of_pos (h c (List.mem_cons_self ..))]
        exact ih (fun x hx => h x (List.mem_cons_of_mem _ hx))
    rw [this]; rfl
  rw [hs, ht]


theorem takeWhile_append_stop' (p : Char → Bool) (y r : List Char) (h : ∃ c ∈ y, p c = false) :
    (y ++ r).takeWhile p = y.takeWhile p := by
  induction y with
  | nil => obtain ⟨c, hc, _⟩ := h; cases hc
  | cons a y ih =>
    by_cases ha : p a = true
    · rw [List.cons_append, List.takeWhile_cons_of_pos ha, List.takeWhile_cons_of_pos ha]
      obtain ⟨c, hc, hpc⟩ := h
      rcases List.mem_cons.mp hc with rfl | hc'
      · rw [ha] at hpc; cases hpc
      · rw [ih ⟨c, hc', hpc⟩]
    · have ha' : p a = false := by simpa using ha
      rw [List.cons_append, List.takeWhile_cons_of_neg (by simp [ha']), List.takeWhile_cons_of_neg (by simp [ha'])]

/-- text without quotes that ends in a blank and in which no word is a mnemonic: scanning it for the
    start of the next instruction finds nothing, whatever follows -/
theorem cutAtMnemonic_pre (cfg : PCfg) (pre rest : List Char) (s : Bool)
    (hq : ∀ c ∈ pre, isQuote c = false)
    (hlast : ∃ a, pre = a ++ [' '])
    (hno : cutAtMnemonic cfg none s pre = (pre, [])) :
    cutAtMnemonic cfg none s (pre ++ rest) = (pre ++ (cutAtMnemonic cfg none true rest).1, (cutAtMnemonic cfg none true rest).2) := by
  induction pre generalizing s with
  | nil => obtain ⟨a, ha⟩ := hlast; cases a <;> simp at ha
  | cons c pre ih =>
    have hqc : isQuote c = false := hq c (List.mem_cons_self ..)
    have hq' : ∀ x ∈ pre, isQuote x = false := fun x hx => hq x (List.mem_cons_of_mem _ hx)
    rw [cutAtMnemonic] at hno
    rw [List.cons_append, cutAtMnemonic]
    simp only [hqc, Bool.false_eq_true, if_false] at hno ⊢
    -- the name that starts here lies inside `pre` (which ends in a blank)
    have hname : (takeName (c :: (pre ++ rest))).1 = (takeName (c :: pre)).1 := by
      unfold takeName
      simp only
      rw [← List.cons_append]
      apply takeWhile_append_stop'
      obtain ⟨a, ha⟩ := hlast
      exact ⟨' ', by rw [ha]; simp, by decide⟩
    rw [hname]
    split at hno
    · -- a cut inside `pre` contradicts `hno`
      simp at hno
    · rename_i hcut
      simp only [hcut, Bool.false_eq_true, if_false]
      cases pre with
      | nil =>
        -- `pre = [c]`, so `c` is the final blank
        obtain ⟨a, ha⟩ := hlast
        have hc : c = ' ' := by
          cases a with
          | nil => simpa using ha
          | cons x xs => cases xs <;> simp at ha
        subst hc
        simp [isNameChar, isWordChar]
      | cons d pre' =>
        have hlast' : ∃ a, d :: pre' = a ++ [' '] := by
          obtain ⟨a, ha⟩ := hlast
          cases a with
          | nil => simp at ha
          | cons x xs => exact ⟨xs, by simpa using (List.cons.inj ha).2⟩
        have hno' : cutAtMnemonic cfg none (!isNameChar c) (d :: pre') = (d :: pre', []) := by
          cases hc : cutAtMnemonic cfg none (!isNameChar c) (d :: pre') with
          | mk x y =>
            rw [hc] at hno
            simp only [Prod.mk.injEq, List.cons.injEq, true_and] at hno
            rw [hno.1, hno.2]
        rw [ih (!isNameChar c) hq' hlast' hno']
        simp

/-- a mnemonic that starts a word is where the operand text of the previous instruction ends -/
theorem cutAtMnemonic_at_mnemonic (cfg : PCfg) (w2 r2 : List Char) (hw2 : NameText w2)
    (hr2 : ∀ c, r2.head? = some c → isNameChar c = false) (hm : cfg.mnemonics.contains (lowerS w2) = true) :
    cutAtMnemonic cfg none true (w2 ++ r2) = ([], w2 ++ r2) := by
  obtain ⟨hne, hall⟩ := hw2
  obtain _ | ⟨c, w'⟩ := w2
  · contradiction
  have hc : isNameChar c = true := hall c (List.mem_cons_self ..)
  have hqc : isQuote c = false := by
    cases hq : isQuote c with
    | false => rfl
    | true =>
      simp only [isQuote, Bool.or_eq_true, beq_iff_eq] at hq
      rcases hq with rfl | rfl <;> simp [isNameChar, isWordChar] at hc
  have hn := takeName_name (c :: w') r2 hall hr2
  rw [List.cons_append, cutAtMnemonic]
  simp only [hqc, Bool.false_eq_true, if_false, hc, Bool.true_and]
  rw [List.cons_append] at hn
  rw [hn]
  have hm' : lowerS (c :: w') ∈ cfg.mnemonics := by simpa using hm
  simp [hm']

/-- consecutive instructions on one line: the line is the first instruction (its operand text ends
    where the next mnemonic starts a word) followed by the statements of the rest -/
theorem parseStmts_isa_front (cfg : PCfg) (f : Nat) (w ops w2 r2 : List Char)
    (hw : NameText w) (hwdot : w.head? ≠ some '.') (hmn : cfg.mnemonics.contains (lowerS w) = true)
    (hops : ops ≠ [] ∧ ∀ c ∈ ops, isQuote c = false)
    (hop0 : ∀ c, ops.head? = some c → isSpaceChar c = false ∧ c ≠ '=' ∧ c ≠ ':')
    (hequ : lowerS (takeName ops).1 ≠ "equ")
    (hno : cutAtMnemonic cfg none false (' ' :: ops ++ [' ']) = (' ' :: ops ++ [' '], []))
    (hw2 : NameText w2) (hr2 : ∀ c, r2.head? = some c → isNameChar c = false)
    (hm2 : cfg.mnemonics.contains (lowerS w2) = true) (hrt : ptrimR r2 = r2) :
    parseStmts cfg (f + 1) (w ++ ' ' :: ops ++ ' ' :: w2 ++ r2) =
      (do let fs ← (match parseOperands cfg.regs (' ' :: ops ++ [' ']) with
                    | .ok fs => pure fs
                    | .error _ => .error .noVariant)
          let more ← parseStmts cfg f (w2 ++ r2)
          .ok (.isa (lowerS w) fs :: more)) := by
  obtain ⟨hwne, hwall⟩ := hw
  obtain ⟨hone, hoq⟩ := hops
  obtain ⟨hw2ne, hw2all⟩ := hw2
  obtain _ | ⟨c0, w'⟩ := w
  · contradiction
  obtain _ | ⟨o0, ops'⟩ := ops
  · contradiction
  obtain ⟨ho0s, ho0e, ho0c⟩ := hop0 o0 rfl
  have hc0n : isNameChar c0 = true := hwall c0 (List.mem_cons_self ..)
  have hc0s : isSpaceChar c0 = false := nameChar_not_space c0 hc0n
  have hc0dot : (c0 == '.') = false := by
    cases h : (c0 == '.') with
    | false => rfl
    | true => simp at h; subst h; simp at hwdot
  have hc0q : (c0 == '"') = false := by
    cases h : (c0 == '"') with
    | false => rfl
    | true => simp at h; subst h; simp [isNameChar, isWordChar] at hc0n
  -- the tail of the line has no trailing blanks: the last character of `w2 ++ r2` is not a blank
  have htail : ptrimR (w2 ++ r2) = w2 ++ r2 := by
    obtain ⟨lw, hlw⟩ : ∃ lw, w2.getLast? = some lw := by
      cases h : w2.getLast? with
      | none => simp at h; contradiction
      | some lw => exact ⟨lw, rfl⟩
    rw [ptrimR_append_last w2 r2 lw hlw (nameChar_not_space lw (hw2all lw (List.mem_of_getLast? hlw))), hrt]
  have ht : ptrim ((c0 :: w') ++ ' ' :: (o0 :: ops') ++ ' ' :: w2 ++ r2) = (c0 :: w') ++ ' ' :: (o0 :: ops') ++ ' ' :: w2 ++ r2 := by
    unfold ptrim
    rw [List.cons_append, List.cons_append, List.cons_append, ptrimL_cons_nonspace _ _ hc0s]
    obtain ⟨lw, hlw⟩ : ∃ lw, w2.getLast? = some lw := by
      cases h : w2.getLast? with
      | none => simp at h; contradiction
      | some lw => exact ⟨lw, rfl⟩
    have e1 : c0 :: (w' ++ ' ' :: o0 :: ops' ++ ' ' :: w2 ++ r2) = (c0 :: (w' ++ ' ' :: o0 :: ops' ++ ' ' :: w2)) ++ r2 := by simp
    rw [e1, ptrimR_append_last _ r2 lw (by simp [List.getLast?_append, hlw, List.getLast?_cons]) (nameChar_not_space lw (hw2all lw (List.mem_of_getLast? hlw))), hrt]
  have hn : takeName ((c0 :: w') ++ ' ' :: ((o0 :: ops') ++ ' ' :: (w2 ++ r2))) = (c0 :: w', ' ' :: ((o0 :: ops') ++ ' ' :: (w2 ++ r2))) :=
    takeName_name _ _ hwall (by intro c hc; simp at hc; subst hc; decide)
  have hr1 : ptrimL (' ' :: ((o0 :: ops') ++ ' ' :: (w2 ++ r2))) = (o0 :: ops') ++ ' ' :: (w2 ++ r2) := by
    simp [ptrimL, ho0s, show isSpaceChar ' ' = true by decide]
  -- the name at the start of the operand text lies inside `ops`
  have hname : (takeName ((o0 :: ops') ++ ' ' :: (w2 ++ r2))).1 = (takeName (o0 :: ops')).1 := by
    unfold takeName
    simp only
    by_cases hall : ∀ c ∈ (o0 :: ops'), isNameChar c = true
    · have := takeWhile_append_stop isNameChar (o0 :: ops') (' ' :: (w2 ++ r2)) hall (by intro c hc; simp at hc; subst hc; decide)
      rw [this.1]
      have h2 := takeWhile_append_stop isNameChar (o0 :: ops') [] hall (by intro c hc; simp at hc)
      simpa using h2.1.symm
    · have : ∃ c ∈ (o0 :: ops'), isNameChar c = false := by
        apply Classical.byContradiction
        intro hcon
        apply hall
        intro c hc
        cases hp : isNameChar c with
        | true => rfl
        | false => exact absurd ⟨c, hc, hp⟩ hcon
      exact takeWhile_append_stop' isNameChar _ _ this
  have hcut : cutAtMnemonic cfg none false (' ' :: ((o0 :: ops') ++ ' ' :: (w2 ++ r2))) = (' ' :: (o0 :: ops') ++ [' '], w2 ++ r2) := by
    have e : ' ' :: ((o0 :: ops') ++ ' ' :: (w2 ++ r2)) = (' ' :: (o0 :: ops') ++ [' ']) ++ (w2 ++ r2) := by simp
    rw [e, cutAtMnemonic_pre cfg _ _ false (by
          intro c hc
          simp only [List.cons_append, List.mem_cons, List.mem_append, List.not_mem_nil, or_false] at hc
          rcases hc with rfl | rfl | hc | rfl
          · decide
          · exact hoq _ (List.mem_cons_self ..)
          · exact hoq _ (List.mem_cons_of_mem _ hc)
          · decide) ⟨' ' :: o0 :: ops', by simp⟩ hno,
        cutAtMnemonic_at_mnemonic cfg w2 r2 ⟨hw2ne, hw2all⟩ hr2 hm2]
    simp
  rw [parseStmts]
  simp only [ht]
  simp only [List.cons_append, List.append_assoc] at hn hr1 hname hcut ⊢
  simp only [hn]
  have hcolon : ((' ' :: o0 :: (ops' ++ ' ' :: (w2 ++ r2))).head? == some ':') = false := by simp
  simp only [hr1, hname]
  have heq1 : ((o0 :: (ops' ++ ' ' :: (w2 ++ r2))).head? == some '=') = false := by
    simp [ho0e]
  have hequ' : (lowerS (takeName (o0 :: ops')).fst == "equ") = false := by simpa using hequ
  have hmn' : lowerS (c0 :: w') ∈ cfg.mnemonics := by simpa using hmn
  simp [hequ', hc0dot, hc0q, hcut, ho0e, hmn']
  cases parseOperands cfg.regs (' ' :: o0 :: (ops' ++ [' '])) <;> rfl


end BV
