/-
  Helper lemmas for property C10 (macros): the accumulator-based specification `specSteps.go`
  against the running-address loop `assembleSteps`, and the macro variant loop `selectMacro.go`.
-/
import BespokeVerif.Model.Macro
import BespokeVerif.Lemmas.Bits
namespace BV

/-! ## sums of lengths -/

theorem foldl_add_lengths (l : List (List Nat)) (a : Nat) :
    (l.map List.length).foldl (· + ·) a = a + l.flatten.length := by
  induction l generalizing a with
  | nil => simp
  | cons x xs ih =>
    simp only [List.map_cons, List.foldl_cons, List.flatten_cons, List.length_append]
    rw [ih]; omega

theorem foldl_lengths_eq (l : List (List Nat)) :
    (l.map List.length).foldl (· + ·) 0 = l.flatten.length := by
  rw [foldl_add_lengths]; omega

theorem foldl_lengths_reverse (l : List (List Nat)) :
    (l.map List.length).foldl (· + ·) 0 = l.reverse.flatten.length := by
  rw [foldl_lengths_eq]
  induction l with
  | nil => rfl
  | cons x xs ih =>
    simp only [List.flatten_cons, List.length_append, List.reverse_cons, List.flatten_append,
      List.flatten_nil, List.append_nil]
    omega

/-! ## unfolding of the two loops -/

theorem assembleSteps_nil (regs : List String) (gz : Int × Int) (env : String → Option Int) (tbl : InstrTable)
    (addr : Int) : assembleSteps regs gz env tbl addr [] = .ok [] := by
  simp only [assembleSteps]

theorem assembleSteps_cons_none (regs : List String) (gz : Int × Int) (env : String → Option Int) (tbl : InstrTable)
    (addr : Int) (mn : String) (fs : List Form) (rest : List (String × List Form))
    (ht : tbl.find? (·.1 == mn) = none) :
    assembleSteps regs gz env tbl addr ((mn, fs) :: rest) = .error .unknownInstruction := by
  simp only [assembleSteps, ht]

theorem assembleSteps_cons_error (regs : List String) (gz : Int × Int) (env : String → Option Int) (tbl : InstrTable)
    (addr : Int) (mn : String) (fs : List Form) (rest : List (String × List Form)) (x : String)
    (variants : List VariantCfg) (e : Err)
    (ht : tbl.find? (·.1 == mn) = some (x, variants))
    (h1 : assembleStmt regs gz env addr variants fs = .error e) :
    assembleSteps regs gz env tbl addr ((mn, fs) :: rest) = .error e := by
  simp only [assembleSteps, ht, h1]
  rfl

theorem assembleSteps_cons_ok (regs : List String) (gz : Int × Int) (env : String → Option Int) (tbl : InstrTable)
    (addr : Int) (mn : String) (fs : List Form) (rest : List (String × List Form)) (x : String)
    (variants : List VariantCfg) (i : Nat) (bs : List Nat)
    (ht : tbl.find? (·.1 == mn) = some (x, variants))
    (h1 : assembleStmt regs gz env addr variants fs = .ok (i, bs)) :
    assembleSteps regs gz env tbl addr ((mn, fs) :: rest) =
      (assembleSteps regs gz env tbl (addr + bs.length) rest).map fun tail => bs ++ tail := by
  simp only [assembleSteps, ht, h1, bind, Except.bind]
  cases assembleSteps regs gz env tbl (addr + bs.length) rest <;> rfl

theorem specGo_nil (regs : List String) (gz : Int × Int) (env : String → Option Int) (tbl : InstrTable)
    (addr : Int) (acc : List (List Nat)) :
    specSteps.go regs gz env tbl addr [] acc = .ok acc.reverse := by
  simp only [specSteps.go]

theorem specGo_cons_none (regs : List String) (gz : Int × Int) (env : String → Option Int) (tbl : InstrTable)
    (addr : Int) (mn : String) (fs : List Form) (rest : List (String × List Form)) (acc : List (List Nat))
    (ht : tbl.find? (·.1 == mn) = none) :
    specSteps.go regs gz env tbl addr ((mn, fs) :: rest) acc = .error .unknownInstruction := by
  simp only [specSteps.go, ht]

theorem specGo_cons_error (regs : List String) (gz : Int × Int) (env : String → Option Int) (tbl : InstrTable)
    (addr : Int) (mn : String) (fs : List Form) (rest : List (String × List Form)) (acc : List (List Nat))
    (x : String) (variants : List VariantCfg) (e : Err)
    (ht : tbl.find? (·.1 == mn) = some (x, variants))
    (h1 : assembleStmt regs gz env (addr + (acc.reverse.flatten.length : Nat)) variants fs = .error e) :
    specSteps.go regs gz env tbl addr ((mn, fs) :: rest) acc = .error e := by
  simp only [specSteps.go, ht, foldl_lengths_reverse, h1]
  rfl

theorem specGo_cons_ok (regs : List String) (gz : Int × Int) (env : String → Option Int) (tbl : InstrTable)
    (addr : Int) (mn : String) (fs : List Form) (rest : List (String × List Form)) (acc : List (List Nat))
    (x : String) (variants : List VariantCfg) (i : Nat) (bs : List Nat)
    (ht : tbl.find? (·.1 == mn) = some (x, variants))
    (h1 : assembleStmt regs gz env (addr + (acc.reverse.flatten.length : Nat)) variants fs = .ok (i, bs)) :
    specSteps.go regs gz env tbl addr ((mn, fs) :: rest) acc =
      specSteps.go regs gz env tbl addr rest (bs :: acc) := by
  simp only [specSteps.go, ht, foldl_lengths_reverse, h1]
  rfl

/-! ## the refinement, generalised over the accumulator -/

theorem specGo_eq (regs : List String) (gz : Int × Int) (env : String → Option Int) (tbl : InstrTable)
    (addr : Int) (rest : List (String × List Form)) (acc : List (List Nat)) :
    (specSteps.go regs gz env tbl addr rest acc).map List.flatten =
      (assembleSteps regs gz env tbl (addr + (acc.reverse.flatten.length : Nat)) rest).map
        fun tail => acc.reverse.flatten ++ tail := by
  induction rest generalizing acc with
  | nil =>
    rw [specGo_nil, assembleSteps_nil]
    simp [Except.map]
  | cons st rest ih =>
    obtain ⟨mn, fs⟩ := st
    cases ht : tbl.find? (·.1 == mn) with
    | none =>
      rw [specGo_cons_none _ _ _ _ _ _ _ _ _ ht, assembleSteps_cons_none _ _ _ _ _ _ _ _ ht]
      rfl
    | some xv =>
      obtain ⟨x, variants⟩ := xv
      cases h1 : assembleStmt regs gz env (addr + (acc.reverse.flatten.length : Nat)) variants fs with
      | error e =>
        rw [specGo_cons_error _ _ _ _ _ _ _ _ _ _ _ _ ht h1, assembleSteps_cons_error _ _ _ _ _ _ _ _ _ _ _ ht h1]
        rfl
      | ok r =>
        obtain ⟨i, bs⟩ := r
        rw [specGo_cons_ok _ _ _ _ _ _ _ _ _ _ _ _ _ ht h1, assembleSteps_cons_ok _ _ _ _ _ _ _ _ _ _ _ _ ht h1, ih]
        have ha : addr + (((bs :: acc).reverse.flatten.length : Nat) : Int) =
            addr + ((acc.reverse.flatten.length : Nat) : Int) + ((bs.length : Nat) : Int) := by
          simp only [List.reverse_cons, List.flatten_append, List.flatten_cons, List.flatten_nil,
            List.append_nil, List.length_append]
          omega
        rw [ha]
        cases assembleSteps regs gz env tbl
            (addr + ((acc.reverse.flatten.length : Nat) : Int) + ((bs.length : Nat) : Int)) rest with
        | error e => rfl
        | ok t => simp [Except.map]

theorem specGo_length (regs : List String) (gz : Int × Int) (env : String → Option Int) (tbl : InstrTable)
    (addr : Int) (rest : List (String × List Form)) (acc : List (List Nat)) (bss : List (List Nat))
    (h : specSteps.go regs gz env tbl addr rest acc = .ok bss) : bss.length = acc.length + rest.length := by
  induction rest generalizing acc with
  | nil =>
    rw [specGo_nil] at h
    cases h; simp
  | cons st rest ih =>
    obtain ⟨mn, fs⟩ := st
    cases ht : tbl.find? (·.1 == mn) with
    | none => rw [specGo_cons_none _ _ _ _ _ _ _ _ _ ht] at h; cases h
    | some xv =>
      obtain ⟨x, variants⟩ := xv
      cases h1 : assembleStmt regs gz env (addr + (acc.reverse.flatten.length : Nat)) variants fs with
      | error e => rw [specGo_cons_error _ _ _ _ _ _ _ _ _ _ _ _ ht h1] at h; cases h
      | ok r =>
        obtain ⟨i, bs⟩ := r
        rw [specGo_cons_ok _ _ _ _ _ _ _ _ _ _ _ _ _ ht h1] at h
        have := ih _ h
        simp only [List.length_cons] at this ⊢
        omega

/-! ## the macro variant loop -/

theorem selectMacroGo_ok (regs : List String) (gz : Int × Int) (mvs : List MacroVariant) (fs : List Form) (i j : Nat)
    (mv : MacroVariant) (m : Matched) (h : selectMacro.go regs gz fs mvs i = .ok (j, mv, m)) :
    ∃ pre post, mvs = pre ++ mv :: post ∧ j = i + pre.length ∧
      (∀ u ∈ pre, matchVariant regs gz u.operands fs = .decline) ∧
      matchVariant regs gz mv.operands fs = .ok m := by
  induction mvs generalizing i with
  | nil => simp [selectMacro.go] at h
  | cons u us ih =>
    simp only [selectMacro.go] at h
    cases hu : matchVariant regs gz u.operands fs with
    | ok q =>
      rw [hu] at h
      simp only [Acc.ok.injEq, Prod.mk.injEq] at h
      obtain ⟨rfl, rfl, rfl⟩ := h
      exact ⟨[], us, rfl, by simp, by simp, hu⟩
    | hard => rw [hu] at h; simp at h
    | decline =>
      rw [hu] at h
      obtain ⟨pre, post, hl, hj, hpre, hv⟩ := ih (i + 1) h
      refine ⟨u :: pre, post, by simp [hl], by simp; omega, ?_, hv⟩
      intro y hy
      rcases List.mem_cons.mp hy with rfl | hy
      · exact hu
      · exact hpre y hy

theorem selectMacro_ok (regs : List String) (gz : Int × Int) (mvs : List MacroVariant) (fs : List Form) (j : Nat)
    (mv : MacroVariant) (m : Matched) (h : selectMacro regs gz mvs fs = .ok (j, mv, m)) :
    ∃ pre post, mvs = pre ++ mv :: post ∧ j = pre.length ∧
      (∀ u ∈ pre, matchVariant regs gz u.operands fs = .decline) ∧
      matchVariant regs gz mv.operands fs = .ok m := by
  obtain ⟨pre, post, hl, hj, hpre, hv⟩ := selectMacroGo_ok regs gz mvs fs 0 j mv m h
  exact ⟨pre, post, hl, by omega, hpre, hv⟩

end BV
