/-
  Helper lemmas for property C07, parser part: the fuel-indexed recursive-descent parser
  `parseLevel`/`parseLoop` is sound and complete for the stratified grammar `Gram`, and the fuel
  supplied by `parseFuel` is never exhausted. Core Lean only.
-/
import BespokeVerif.Model.Expr
namespace BV
namespace ParseLemmas

/-! ## unfolding lemmas -/

theorem parseLevel_zero (lvl ts) : parseLevel 0 lvl ts = .error .outOfFuel := by
  rw [parseLevel.eq_def]

theorem parseLoop_zero (lvl l ts) : parseLoop 0 lvl l ts = .error .outOfFuel := by
  rw [parseLoop.eq_def]

theorem parseLevel_lt (f lvl ts) (h : lvl < 4) : parseLevel (f+1) lvl ts =
    (parseLevel f (lvl + 1) ts >>= fun p => parseLoop f lvl p.1 p.2) := by
  rw [parseLevel.eq_def]
  simp only [h, if_true]

/-- the continuation after the inner expression of `( … )` / `BYTEk( … )` -/
def closeK (mk : E → E) (p : E × List Tok) : Except Err (E × List Tok) :=
  match p.2 with
  | .rpar :: rest'' => .ok (mk p.1, rest'')
  | _ => .error .badExpression

theorem parseLevel_atom (f lvl ts) (h : ¬ lvl < 4) : parseLevel (f+1) lvl ts =
      match ts with
      | .num n :: rest => .ok (.num n, rest)
      | .label s :: rest => .ok (.label s, rest)
      | .byteFn k :: rest => (parseLevel f 0 rest >>= closeK (.byteN k))
      | .op .sub :: rest => (parseLevel f 4 rest >>= fun p => .ok (.neg p.1, p.2))
      | .lpar :: rest => (parseLevel f 0 rest >>= closeK id)
      | _ => .error .badExpression := by
  rw [parseLevel.eq_def]
  simp only [h, if_false]
  rfl

theorem parseLoop_succ (f lvl l ts) : parseLoop (f+1) lvl l ts =
    match headOp lvl ts with
    | some o => (parseLevel f (lvl + 1) (ts.drop 1) >>= fun p => parseLoop f lvl (.bin o l p.1) p.2)
    | none => .ok (l, ts) := by
  rw [parseLoop.eq_def]
  rfl

theorem headOp_some {lvl ts o} (h : headOp lvl ts = some o) :
    ∃ ts', ts = .op o :: ts' ∧ o.level = lvl := by
  unfold headOp at h
  split at h
  · split at h
    · cases h; exact ⟨_, rfl, by assumption⟩
    · cases h
  · cases h

theorem headOp_cons_op (lvl o ts) (h : o.level = lvl) : headOp lvl (.op o :: ts) = some o := by
  simp [headOp, h]

theorem parseLoop_op (f lvl l o ts) (h : o.level = lvl) : parseLoop (f+1) lvl l (.op o :: ts) =
    (parseLevel f (lvl + 1) ts >>= fun p => parseLoop f lvl (.bin o l p.1) p.2) := by
  rw [parseLoop_succ, headOp_cons_op _ _ _ h]
  rfl

theorem parseLoop_none (f lvl l ts) (h : headOp lvl ts = none) :
    parseLoop (f+1) lvl l ts = .ok (l, ts) := by
  rw [parseLoop_succ, h]

/-! ## `Except` bind helpers -/

theorem bind_ok {α β} (a : α) (g : α → Except Err β) : ((Except.ok a : Except Err α) >>= g) = g a := rfl
theorem bind_error {α β} (e : Err) (g : α → Except Err β) :
    ((Except.error e : Except Err α) >>= g) = .error e := rfl

theorem bind_eq_ok {α β} {x : Except Err α} {g : α → Except Err β} {b : β}
    (h : (x >>= g) = .ok b) : ∃ a, x = .ok a ∧ g a = .ok b := by
  cases x with
  | error e => cases h
  | ok a => exact ⟨a, rfl, h⟩

theorem bind_mono {α β} {x x' : Except Err α} {g g' : α → Except Err β}
    (hx : x ≠ .error .outOfFuel → x' = x)
    (hg : ∀ a, g a ≠ .error .outOfFuel → g' a = g a)
    (h : (x >>= g) ≠ .error .outOfFuel) : (x' >>= g') = (x >>= g) := by
  cases x with
  | error e =>
    have : x' = .error e := hx (by intro h'; apply h; rw [h']; rfl)
    rw [this]; rfl
  | ok a =>
    have : x' = .ok a := hx (by intro h'; cases h')
    rw [this]; exact hg a h

theorem bind_ne_oof {α β} {x : Except Err α} {g : α → Except Err β}
    (hx : x ≠ .error .outOfFuel) (hg : ∀ a, x = .ok a → g a ≠ .error .outOfFuel) :
    (x >>= g) ≠ .error .outOfFuel := by
  cases x with
  | error e =>
    intro h
    have h' : (Except.error e : Except Err β) = .error .outOfFuel := h
    injection h' with h'
    exact hx (by rw [h'])
  | ok a => exact hg a rfl

/-! ## fuel monotonicity -/

theorem mono_step (f : Nat) :
    (∀ lvl ts, parseLevel f lvl ts ≠ .error .outOfFuel →
      parseLevel (f+1) lvl ts = parseLevel f lvl ts) ∧
    (∀ lvl l ts, parseLoop f lvl l ts ≠ .error .outOfFuel →
      parseLoop (f+1) lvl l ts = parseLoop f lvl l ts) := by
  induction f with
  | zero =>
    refine ⟨fun lvl ts h => ?_, fun lvl l ts h => ?_⟩
    · exact absurd (parseLevel_zero lvl ts) h
    · exact absurd (parseLoop_zero lvl l ts) h
  | succ f ih =>
    obtain ⟨ihL, ihP⟩ := ih
    refine ⟨fun lvl ts h => ?_, fun lvl l ts h => ?_⟩
    · by_cases hl : lvl < 4
      · rw [parseLevel_lt _ _ _ hl] at h ⊢
        rw [parseLevel_lt _ _ _ hl]
        exact bind_mono (ihL _ _) (fun a => ihP _ _ _) h
      · rw [parseLevel_atom _ _ _ hl] at h ⊢
        rw [parseLevel_atom _ _ _ hl]
        rcases ts with _ | ⟨t, rest⟩
        · rfl
        · cases t with
          | num n => rfl
          | label s => rfl
          | lpar => exact bind_mono (ihL _ _) (fun a h => rfl) h
          | rpar => rfl
          | byteFn k => exact bind_mono (ihL _ _) (fun a h => rfl) h
          | op o =>
            cases o <;> first | rfl | exact bind_mono (ihL _ _) (fun a h => rfl) h
    · rw [parseLoop_succ] at h ⊢
      rw [parseLoop_succ]
      cases ho : headOp lvl ts with
      | none => rfl
      | some o =>
        rw [ho] at h
        exact bind_mono (ihL _ _) (fun a => ihP _ _ _) h

theorem parseLevel_mono {f f' lvl ts} (hf : f ≤ f') (h : parseLevel f lvl ts ≠ .error .outOfFuel) :
    parseLevel f' lvl ts = parseLevel f lvl ts := by
  induction hf with
  | refl => rfl
  | step _ ih => rw [(mono_step _).1 _ _ (by rw [ih]; exact h), ih]

theorem parseLoop_mono {f f' lvl l ts} (hf : f ≤ f') (h : parseLoop f lvl l ts ≠ .error .outOfFuel) :
    parseLoop f' lvl l ts = parseLoop f lvl l ts := by
  induction hf with
  | refl => rfl
  | step _ ih => rw [(mono_step _).2 _ _ _ (by rw [ih]; exact h), ih]

theorem parseLevel_mono_ok {f f' lvl ts x} (hf : f ≤ f') (h : parseLevel f lvl ts = .ok x) :
    parseLevel f' lvl ts = .ok x := by
  rw [parseLevel_mono hf (by rw [h]; intro h'; cases h'), h]

theorem parseLoop_mono_ok {f f' lvl l ts x} (hf : f ≤ f') (h : parseLoop f lvl l ts = .ok x) :
    parseLoop f' lvl l ts = .ok x := by
  rw [parseLoop_mono hf (by rw [h]; intro h'; cases h'), h]

/-! ## grammar facts -/

theorem gram_le_four {lvl ts e} (h : Gram lvl ts e) : lvl ≤ 4 := by
  induction h <;> omega

theorem gram_length_pos {lvl ts e} (h : Gram lvl ts e) : 0 < ts.length := by
  induction h with
  | up _ _ ih => exact ih
  | bin _ _ _ _ ih₁ ih₂ => simp only [List.length_append, List.length_cons, List.length_nil]; omega
  | num => simp
  | label => simp
  | neg _ _ => simp
  | byteN _ _ => simp
  | paren _ _ => simp

theorem gram_mono {lvl ts e} (h : Gram lvl ts e) : ∀ lvl', lvl' ≤ lvl → Gram lvl' ts e := by
  intro lvl' hle
  have h4 := gram_le_four h
  obtain ⟨d, rfl⟩ : ∃ d, lvl = lvl' + d := ⟨lvl - lvl', by omega⟩
  clear hle
  induction d with
  | zero => exact h
  | succ d ih =>
    have := gram_le_four h
    exact ih (Gram.up (by omega) h) (by omega)

/-! ## soundness: an accepted input splits into a derivable prefix and the remainder -/

theorem closeK_ok {mk : E → E} {p : E × List Tok} {x : E × List Tok} (h : closeK mk p = .ok x) :
    p.2 = .rpar :: x.2 ∧ x.1 = mk p.1 := by
  unfold closeK at h
  split at h
  · next rest'' heq => cases h; exact ⟨heq, rfl⟩
  · cases h

theorem sound_aux (f : Nat) :
    (∀ lvl ts e rest, lvl ≤ 4 → parseLevel f lvl ts = .ok (e, rest) →
      ∃ pre, ts = pre ++ rest ∧ Gram lvl pre e) ∧
    (∀ lvl l ts e rest, lvl < 4 → parseLoop f lvl l ts = .ok (e, rest) →
      ∀ pre₀, Gram lvl pre₀ l → ∃ pre, ts = pre ++ rest ∧ Gram lvl (pre₀ ++ pre) e) := by
  induction f with
  | zero =>
    refine ⟨fun lvl ts e rest _ h => ?_, fun lvl l ts e rest _ h => ?_⟩
    · rw [parseLevel_zero] at h; cases h
    · rw [parseLoop_zero] at h; cases h
  | succ f ih =>
    obtain ⟨ihL, ihP⟩ := ih
    refine ⟨fun lvl ts e rest hl4 h => ?_, fun lvl l ts e rest hl4 h pre₀ hg => ?_⟩
    · by_cases hl : lvl < 4
      · rw [parseLevel_lt _ _ _ hl] at h
        obtain ⟨⟨l, rest₁⟩, h₁, h₂⟩ := bind_eq_ok h
        obtain ⟨pre₁, rfl, g₁⟩ := ihL _ _ _ _ (by omega) h₁
        obtain ⟨pre₂, rfl, g₂⟩ := ihP _ _ _ _ _ hl h₂ pre₁ (Gram.up hl g₁)
        exact ⟨pre₁ ++ pre₂, by simp, g₂⟩
      · have : lvl = 4 := by omega
        subst this
        rw [parseLevel_atom _ _ _ hl] at h
        rcases ts with _ | ⟨t, ts'⟩
        · cases h
        · cases t with
          | num n => cases h; exact ⟨[.num n], rfl, Gram.num⟩
          | label s => cases h; exact ⟨[.label s], rfl, Gram.label⟩
          | rpar => cases h
          | lpar =>
            obtain ⟨⟨e₁, rest₁⟩, h₁, h₂⟩ := bind_eq_ok h
            obtain ⟨pre₁, rfl, g₁⟩ := ihL _ _ _ _ (by omega) h₁
            obtain ⟨hr, he⟩ := closeK_ok h₂
            simp only [id] at hr he
            subst hr he
            exact ⟨.lpar :: pre₁ ++ [.rpar], by simp, Gram.paren g₁⟩
          | byteFn k =>
            obtain ⟨⟨e₁, rest₁⟩, h₁, h₂⟩ := bind_eq_ok h
            obtain ⟨pre₁, rfl, g₁⟩ := ihL _ _ _ _ (by omega) h₁
            obtain ⟨hr, he⟩ := closeK_ok h₂
            simp only at hr he
            subst hr he
            exact ⟨.byteFn k :: pre₁ ++ [.rpar], by simp, Gram.byteN g₁⟩
          | op o =>
            cases o
            case sub =>
              obtain ⟨⟨e₁, rest₁⟩, h₁, h₂⟩ := bind_eq_ok h
              obtain ⟨pre₁, rfl, g₁⟩ := ihL _ _ _ _ (by omega) h₁
              cases h₂
              exact ⟨.op .sub :: pre₁, by simp, Gram.neg g₁⟩
            all_goals cases h
    · rw [parseLoop_succ] at h
      cases ho : headOp lvl ts with
      | none =>
        rw [ho] at h
        cases h
        exact ⟨[], by simp, by simpa using hg⟩
      | some o =>
        rw [ho] at h
        obtain ⟨ts', rfl, hlev⟩ := headOp_some ho
        obtain ⟨⟨r, rest₁⟩, h₁, h₂⟩ := bind_eq_ok h
        simp only [List.drop_succ_cons, List.drop_zero] at h₁
        obtain ⟨pre₁, rfl, g₁⟩ := ihL _ _ _ _ (by omega) h₁
        obtain ⟨pre₂, rfl, g₂⟩ := ihP _ _ _ _ _ hl4 h₂ (pre₀ ++ [.op o] ++ pre₁)
          (Gram.bin hl4 hlev hg g₁)
        refine ⟨.op o :: pre₁ ++ pre₂, by simp, ?_⟩
        simpa using g₂

theorem parseLevel_sound {f lvl ts e rest} (hl : lvl ≤ 4) (h : parseLevel f lvl ts = .ok (e, rest)) :
    ∃ pre, ts = pre ++ rest ∧ Gram lvl pre e := (sound_aux f).1 _ _ _ _ hl h

/-! ## consumed length (no grammar needed) -/

theorem length_aux (f : Nat) :
    (∀ lvl ts e rest, parseLevel f lvl ts = .ok (e, rest) → rest.length < ts.length) ∧
    (∀ lvl l ts e rest, parseLoop f lvl l ts = .ok (e, rest) → rest.length ≤ ts.length) := by
  induction f with
  | zero =>
    refine ⟨fun lvl ts e rest h => ?_, fun lvl l ts e rest h => ?_⟩
    · rw [parseLevel_zero] at h; cases h
    · rw [parseLoop_zero] at h; cases h
  | succ f ih =>
    obtain ⟨ihL, ihP⟩ := ih
    refine ⟨fun lvl ts e rest h => ?_, fun lvl l ts e rest h => ?_⟩
    · by_cases hl : lvl < 4
      · rw [parseLevel_lt _ _ _ hl] at h
        obtain ⟨⟨l, rest₁⟩, h₁, h₂⟩ := bind_eq_ok h
        have := ihL _ _ _ _ h₁
        have h₃ := ihP _ _ _ _ _ h₂
        dsimp only at h₃
        omega
      · rw [parseLevel_atom _ _ _ hl] at h
        rcases ts with _ | ⟨t, ts'⟩
        · cases h
        · cases t with
          | num n => cases h; simp
          | label s => cases h; simp
          | rpar => cases h
          | lpar =>
            obtain ⟨⟨e₁, rest₁⟩, h₁, h₂⟩ := bind_eq_ok h
            have := ihL _ _ _ _ h₁
            obtain ⟨hr, he⟩ := closeK_ok h₂
            simp only at hr
            subst hr
            simp only [List.length_cons] at this ⊢
            omega
          | byteFn k =>
            obtain ⟨⟨e₁, rest₁⟩, h₁, h₂⟩ := bind_eq_ok h
            have := ihL _ _ _ _ h₁
            obtain ⟨hr, he⟩ := closeK_ok h₂
            simp only at hr
            subst hr
            simp only [List.length_cons] at this ⊢
            omega
          | op o =>
            cases o
            case sub =>
              obtain ⟨⟨e₁, rest₁⟩, h₁, h₂⟩ := bind_eq_ok h
              have := ihL _ _ _ _ h₁
              cases h₂
              simp only [List.length_cons]
              omega
            all_goals cases h
    · rw [parseLoop_succ] at h
      cases ho : headOp lvl ts with
      | none => rw [ho] at h; cases h; exact Nat.le_refl _
      | some o =>
        rw [ho] at h
        obtain ⟨ts', rfl, hlev⟩ := headOp_some ho
        obtain ⟨⟨r, rest₁⟩, h₁, h₂⟩ := bind_eq_ok h
        simp only [List.drop_succ_cons, List.drop_zero] at h₁
        have := ihL _ _ _ _ h₁
        have h₃ := ihP _ _ _ _ _ h₂
        dsimp only at h₃
        simp only [List.length_cons]
        omega

/-! ## the fuel `6 * length + (5 - lvl)` is never exhausted -/

theorem closeK_ne_oof (mk : E → E) (p : E × List Tok) : closeK mk p ≠ .error .outOfFuel := by
  unfold closeK
  split
  · intro h; cases h
  · intro h; cases h

theorem fuel_aux (f : Nat) :
    (∀ lvl ts, lvl ≤ 4 → 6 * ts.length + (5 - lvl) ≤ f → parseLevel f lvl ts ≠ .error .outOfFuel) ∧
    (∀ lvl l ts, lvl < 4 → 6 * ts.length + 1 ≤ f → parseLoop f lvl l ts ≠ .error .outOfFuel) := by
  induction f with
  | zero =>
    refine ⟨fun lvl ts h4 h => ?_, fun lvl l ts h4 h => ?_⟩ <;> omega
  | succ f ih =>
    obtain ⟨ihL, ihP⟩ := ih
    refine ⟨fun lvl ts hl4 hf => ?_, fun lvl l ts hl4 hf => ?_⟩
    · by_cases hl : lvl < 4
      · rw [parseLevel_lt _ _ _ hl]
        refine bind_ne_oof (ihL _ _ (by omega) (by omega)) ?_
        rintro ⟨l, rest₁⟩ h₁
        have := (length_aux f).1 _ _ _ _ h₁
        exact ihP _ _ _ hl (by dsimp only; omega)
      · have : lvl = 4 := by omega
        subst this
        rw [parseLevel_atom _ _ _ hl]
        rcases ts with _ | ⟨t, ts'⟩
        · intro h; cases h
        · simp only [List.length_cons] at hf
          cases t with
          | num n => intro h; cases h
          | label s => intro h; cases h
          | rpar => intro h; cases h
          | lpar =>
            exact bind_ne_oof (ihL _ _ (by omega) (by omega)) (fun a _ => closeK_ne_oof _ _)
          | byteFn k =>
            exact bind_ne_oof (ihL _ _ (by omega) (by omega)) (fun a _ => closeK_ne_oof _ _)
          | op o =>
            cases o
            case sub =>
              exact bind_ne_oof (ihL _ _ (by omega) (by omega)) (fun a _ => by intro h; cases h)
            all_goals (intro h; cases h)
    · rw [parseLoop_succ]
      cases ho : headOp lvl ts with
      | none => intro h; cases h
      | some o =>
        obtain ⟨ts', rfl, hlev⟩ := headOp_some ho
        simp only [List.length_cons] at hf
        simp only [List.drop_succ_cons, List.drop_zero]
        refine bind_ne_oof (ihL _ _ (by omega) (by omega)) ?_
        rintro ⟨r, rest₁⟩ h₁
        have := (length_aux f).1 _ _ _ _ h₁
        exact ihP _ _ _ hl4 (by dsimp only; omega)

theorem parseLevel_fuel_ok (ts : List Tok) : parseLevel (parseFuel ts) 0 ts ≠ .error .outOfFuel :=
  (fuel_aux _).1 0 ts (by omega) (by unfold parseFuel; omega)

/-- any successful run agrees with the run on the entry-point fuel -/
theorem parseLevel_at_parseFuel {f ts x} (h : parseLevel f 0 ts = .ok x) :
    parseLevel (parseFuel ts) 0 ts = .ok x := by
  rcases Nat.le_total f (parseFuel ts) with hle | hle
  · exact parseLevel_mono_ok hle h
  · rw [← parseLevel_mono hle (parseLevel_fuel_ok ts), h]

/-! ## completeness -/

/-- fuel-free success predicates -/
def POk (lvl : Nat) (ts : List Tok) (e : E) (rest : List Tok) : Prop :=
  ∃ f, parseLevel f lvl ts = .ok (e, rest)
def LOk (lvl : Nat) (l : E) (ts : List Tok) (e : E) (rest : List Tok) : Prop :=
  ∃ f, parseLoop f lvl l ts = .ok (e, rest)

/-- the parse at level `lvl` stops in front of `rest`: a leading operator binds weaker -/
def Stop (lvl : Nat) (rest : List Tok) : Prop := ∀ o t, rest = .op o :: t → o.level < lvl

theorem Stop.headOp_none {lvl rest} (h : Stop lvl rest) : headOp lvl rest = none := by
  cases ho : headOp lvl rest with
  | none => rfl
  | some o =>
    obtain ⟨t, rfl, hl⟩ := headOp_some ho
    have := h o t rfl
    omega

theorem Stop.succ {lvl rest} (h : Stop lvl rest) : Stop (lvl + 1) rest :=
  fun o t e => Nat.lt_succ_of_lt (h o t e)

theorem POk_up {lvl ts l rest e rest'} (hl : lvl < 4) (h₁ : POk (lvl + 1) ts l rest)
    (h₂ : LOk lvl l rest e rest') : POk lvl ts e rest' := by
  obtain ⟨f₁, h₁⟩ := h₁
  obtain ⟨f₂, h₂⟩ := h₂
  refine ⟨max f₁ f₂ + 1, ?_⟩
  rw [parseLevel_lt _ _ _ hl, parseLevel_mono_ok (Nat.le_max_left _ _) h₁, bind_ok]
  exact parseLoop_mono_ok (Nat.le_max_right _ _) h₂

theorem LOk_none {lvl l ts} (h : headOp lvl ts = none) : LOk lvl l ts l ts :=
  ⟨1, parseLoop_none _ _ _ _ h⟩

theorem LOk_some {lvl o l ts r rest e rest'} (ho : o.level = lvl) (h₁ : POk (lvl + 1) ts r rest)
    (h₂ : LOk lvl (.bin o l r) rest e rest') : LOk lvl l (.op o :: ts) e rest' := by
  obtain ⟨f₁, h₁⟩ := h₁
  obtain ⟨f₂, h₂⟩ := h₂
  refine ⟨max f₁ f₂ + 1, ?_⟩
  rw [parseLoop_op _ _ _ _ _ ho, parseLevel_mono_ok (Nat.le_max_left _ _) h₁, bind_ok]
  exact parseLoop_mono_ok (Nat.le_max_right _ _) h₂

theorem POk_num (n rest) : POk 4 (.num n :: rest) (.num n) rest :=
  ⟨1, by rw [parseLevel_atom _ _ _ (by omega)]⟩
theorem POk_label (s rest) : POk 4 (.label s :: rest) (.label s) rest :=
  ⟨1, by rw [parseLevel_atom _ _ _ (by omega)]⟩
theorem POk_neg {ts e rest} (h : POk 4 ts e rest) : POk 4 (.op .sub :: ts) (.neg e) rest := by
  obtain ⟨f, h⟩ := h
  exact ⟨f + 1, by rw [parseLevel_atom _ _ _ (by omega)]; simp only [h, bind_ok]⟩
theorem POk_paren {ts e rest} (h : POk 0 ts e (.rpar :: rest)) : POk 4 (.lpar :: ts) e rest := by
  obtain ⟨f, h⟩ := h
  exact ⟨f + 1, by rw [parseLevel_atom _ _ _ (by omega)]; simp only [h, bind_ok]; rfl⟩
theorem POk_byteN {k ts e rest} (h : POk 0 ts e (.rpar :: rest)) :
    POk 4 (.byteFn k :: ts) (.byteN k e) rest := by
  obtain ⟨f, h⟩ := h
  exact ⟨f + 1, by rw [parseLevel_atom _ _ _ (by omega)]; simp only [h, bind_ok]; rfl⟩

theorem complete_aux {lvl pre e} (h : Gram lvl pre e) :
    (∀ rest, Stop lvl rest → POk lvl (pre ++ rest) e rest) ∧
    (lvl < 4 → ∀ rest e' rest', Stop (lvl + 1) rest → LOk lvl e rest e' rest' →
      POk lvl (pre ++ rest) e' rest') := by
  -- for `lvl < 4` the plain form follows from the continuation form
  have plain : ∀ {lvl pre e}, lvl < 4 →
      (∀ rest e' rest', Stop (lvl + 1) rest → LOk lvl e rest e' rest' →
        POk lvl (pre ++ rest) e' rest') →
      ∀ rest, Stop lvl rest → POk lvl (pre ++ rest) e rest :=
    fun _ hk rest hs => hk rest _ _ hs.succ (LOk_none hs.headOp_none)
  induction h with
  | @up lvl ts e hl _ ih =>
    have hk : ∀ rest e' rest', Stop (lvl + 1) rest → LOk lvl e rest e' rest' →
        POk lvl (ts ++ rest) e' rest' :=
      fun rest e' rest' hs hloop => POk_up hl (ih.1 rest hs) hloop
    exact ⟨plain hl hk, fun _ => hk⟩
  | @bin lvl o ts₁ ts₂ l r hl ho _ _ ih₁ ih₂ =>
    have hk : ∀ rest e' rest', Stop (lvl + 1) rest → LOk lvl (.bin o l r) rest e' rest' →
        POk lvl (ts₁ ++ [.op o] ++ ts₂ ++ rest) e' rest' := by
      intro rest e' rest' hs hloop
      have hs' : Stop (lvl + 1) (.op o :: (ts₂ ++ rest)) := by
        intro o' t heq
        cases heq
        omega
      have := ih₁.2 hl (.op o :: (ts₂ ++ rest)) e' rest' hs'
        (LOk_some ho (ih₂.1 rest hs) hloop)
      simpa using this
    exact ⟨plain hl hk, fun _ => hk⟩
  | num => exact ⟨fun rest _ => POk_num _ _, fun h => by omega⟩
  | label => exact ⟨fun rest _ => POk_label _ _, fun h => by omega⟩
  | neg _ ih =>
    refine ⟨fun rest hs => ?_, fun h => by omega⟩
    exact POk_neg (ih.1 rest hs)
  | @byteN k ts e _ ih =>
    refine ⟨fun rest hs => ?_, fun h => by omega⟩
    have := ih.1 (.rpar :: rest) (by intro o t heq; cases heq)
    have := POk_byteN (k := k) this
    simpa using this
  | @paren ts e _ ih =>
    refine ⟨fun rest hs => ?_, fun h => by omega⟩
    have := ih.1 (.rpar :: rest) (by intro o t heq; cases heq)
    have := POk_paren this
    simpa using this

theorem parseLevel_complete {ts e} (h : Gram 0 ts e) :
    parseLevel (parseFuel ts) 0 ts = .ok (e, []) := by
  obtain ⟨f, hf⟩ := (complete_aux h).1 [] (by intro o t heq; cases heq)
  rw [List.append_nil] at hf
  exact parseLevel_at_parseFuel hf

/-! ## entry point -/

theorem parseExpr_ok_iff {ts e} : parseExpr ts = .ok e ↔ parseLevel (parseFuel ts) 0 ts = .ok (e, []) := by
  unfold parseExpr
  constructor
  · intro h
    split at h
    · next e' heq => cases h; exact heq
    · cases h
    · cases h
  · intro h
    rw [h]

theorem parseExpr_sound {ts e} (h : parseExpr ts = .ok e) : Gram 0 ts e := by
  obtain ⟨pre, hts, g⟩ := parseLevel_sound (Nat.zero_le _) (parseExpr_ok_iff.1 h)
  rw [List.append_nil] at hts
  rw [hts]; exact g

theorem parseExpr_complete {ts e} (h : Gram 0 ts e) : parseExpr ts = .ok e :=
  parseExpr_ok_iff.2 (parseLevel_complete h)

theorem parseExpr_ne_oof (ts : List Tok) : parseExpr ts ≠ .error .outOfFuel := by
  have := parseLevel_fuel_ok ts
  unfold parseExpr
  split
  · intro h; cases h
  · intro h; cases h
  · next e heq =>
    intro h
    cases h
    exact this heq

/-! ## the printer -/

theorem binop_level_lt (o : BinOp) : o.level < 4 := by cases o <;> decide

theorem ppAt_gram (e : E) : ∀ lvl, lvl ≤ 4 → Gram lvl (ppAt e lvl) e := by
  induction e with
  | num n => intro lvl h; exact gram_mono Gram.num _ h
  | label s => intro lvl h; exact gram_mono Gram.label _ h
  | neg e ih => intro lvl h; exact gram_mono (Gram.neg (ih 4 (Nat.le_refl _))) _ h
  | byteN k e ih =>
    intro lvl h
    exact gram_mono (Gram.byteN (ih 0 (Nat.zero_le _))) _ h
  | bin o l r ihl ihr =>
    intro lvl h
    have ho := binop_level_lt o
    have body : Gram o.level (ppAt l o.level ++ [.op o] ++ ppAt r (o.level + 1)) (.bin o l r) :=
      Gram.bin ho rfl (ihl _ (by omega)) (ihr _ (by omega))
    unfold ppAt
    by_cases hlt : o.level < lvl
    · simp only [hlt, if_true]
      exact gram_mono (Gram.paren (gram_mono body 0 (Nat.zero_le _))) _ h
    · simp only [hlt, if_false]
      exact gram_mono body _ (by omega)

end ParseLemmas
end BV
