import BespokeVerif.Model.Instr
import BespokeVerif.Lemmas.Bits
/-
  Helper lemmas for property C12 (operand value constraints) and the composition with C01.
-/
namespace BV

/-! ## enumeration lookup -/

theorem lookupInt_none_iff (d : List (Int × Int)) (v : Int) :
    lookupInt d v = none ↔ v ∉ d.map Prod.fst := by
  induction d with
  | nil => simp [lookupInt]
  | cons p d ih =>
    obtain ⟨k, x⟩ := p
    simp only [lookupInt, List.map_cons, List.mem_cons, not_or]
    by_cases hk : k = v
    · simp [hk]
    · simp only [hk, if_false, ih]
      constructor
      · intro h; exact ⟨fun h' => hk h'.symm, h⟩
      · intro h; exact h.2

theorem lookupInt_isSome_iff (d : List (Int × Int)) (v : Int) :
    (∃ x, lookupInt d v = some x) ↔ v ∈ d.map Prod.fst := by
  have h := lookupInt_none_iff d v
  cases hl : lookupInt d v with
  | none => rw [hl] at h; simp only [true_iff] at h; simp [h]
  | some x =>
    rw [hl] at h
    constructor
    · intro _; exact Classical.byContradiction fun hn => by simp [hn] at h
    · intro _; exact ⟨x, rfl⟩

/-! ## min / max checks -/

theorem checkMax_iff (mx : Option Int) (v : Int) : checkMax mx v = true ↔ leOpt v mx := by
  cases mx <;> simp [checkMax, leOpt]

theorem checkMin_iff (mn : Option Int) (v : Int) : checkMin mn v = true ↔ geOpt v mn := by
  cases mn <;> simp [checkMin, geOpt]

theorem relBase_sub (t addr size : Int) (fromEnd : Bool) :
    (if fromEnd = true then t - addr - (size - 1) else t - addr) = t - relBase addr size fromEnd := by
  cases fromEnd <;> simp [relBase] <;> omega

/-! ## `ValSrc.resolve` -/

theorem ValSrc.resolve_ok_iff' (s : ValSrc) (addr size : Int) (w : Nat) (v : Int) :
    s.resolve addr size w = .ok v ↔ s.Satisfies addr size w ∧ v = s.emitted addr size w := by
  cases s with
  | plain x => simp [ValSrc.resolve, ValSrc.Satisfies, ValSrc.emitted, eq_comm]
  | ranged x mn mx =>
    simp only [ValSrc.resolve, ValSrc.Satisfies, ValSrc.emitted, ← checkMax_iff, ← checkMin_iff]
    cases checkMax mx x <;> cases checkMin mn x <;> simp [eq_comm]
  | inZone x zs ze =>
    simp only [ValSrc.resolve, ValSrc.Satisfies, ValSrc.emitted]
    split
    · simp; omega
    · split
      · simp; omega
      · simp [eq_comm]; omega
  | enum x d =>
    simp only [ValSrc.resolve, ValSrc.Satisfies, ValSrc.emitted, ← lookupInt_isSome_iff]
    cases lookupInt d x <;> simp [eq_comm]
  | rel t fe mn mx zs ze =>
    simp only [ValSrc.resolve, ValSrc.Satisfies, ValSrc.emitted, relBase_sub,
      ← checkMax_iff, ← checkMin_iff]
    split
    · simp; omega
    · split
      · simp; omega
      · cases checkMax mx (t - relBase addr size fe) <;>
          cases checkMin mn (t - relBase addr size fe) <;> simp [eq_comm] <;> omega
  | sliced x zs ze =>
    simp only [ValSrc.resolve, ValSrc.Satisfies, ValSrc.emitted]
    split
    · simp; omega
    · split
      · simp; omega
      · split
        · simp_all
        · simp_all [eq_comm]

theorem ValSrc.resolve_of_sat (s : ValSrc) (addr size : Int) (w : Nat)
    (h : s.Satisfies addr size w) : s.resolve addr size w = .ok (s.emitted addr size w) :=
  (ValSrc.resolve_ok_iff' s addr size w _).mpr ⟨h, rfl⟩

theorem ValSrc.resolve_error_iff' (s : ValSrc) (addr size : Int) (w : Nat) :
    (∃ e, s.resolve addr size w = .error e) ↔ ¬ s.Satisfies addr size w := by
  constructor
  · rintro ⟨e, he⟩ hs
    rw [ValSrc.resolve_of_sat s addr size w hs] at he
    cases he
  · intro hs
    cases hr : s.resolve addr size w with
    | error e => exact ⟨e, rfl⟩
    | ok v => exact absurd ((ValSrc.resolve_ok_iff' s addr size w v).mp hr).1 hs

theorem ValSrc.resolve_error_kind' (s : ValSrc) (addr size : Int) (w : Nat) (e : Err)
    (h : s.resolve addr size w = .error e) : e = .constraint := by
  cases s <;> simp only [ValSrc.resolve] at h <;> (repeat' split at h) <;>
    first
    | (cases h; rfl)
    | (cases h)

/-! ## fields, operands, operand lists -/

/-- the constraint part of `SrcOp.Good` -/
def SrcOp.Sat (o : SrcOp) (addr size : Int) : Prop :=
  (match o.code with | none => True | some (f, _) => f.src.Satisfies addr size f.size) ∧
  (match o.arg with | none => True | some f => f.src.Satisfies addr size f.size)

theorem SrcField.resolveField_of_sat (f : SrcField) (addr size : Int)
    (h : f.src.Satisfies addr size f.size) :
    f.resolveField addr size = .ok (f.emittedField addr size) := by
  simp [SrcField.resolveField, ValSrc.resolve_of_sat _ _ _ _ h, SrcField.emittedField, bind,
    Except.bind]

theorem SrcField.resolveField_of_not_sat (f : SrcField) (addr size : Int)
    (h : ¬ f.src.Satisfies addr size f.size) :
    f.resolveField addr size = .error .constraint := by
  obtain ⟨e, he⟩ := (ValSrc.resolve_error_iff' _ _ _ _).mpr h
  have := ValSrc.resolve_error_kind' _ _ _ _ _ he
  subst this
  simp [SrcField.resolveField, he, bind, Except.bind]

theorem SrcOp.resolve_of_sat (o : SrcOp) (addr size : Int) (h : o.Sat addr size) :
    o.resolve addr size = .ok (o.emittedParts addr size) := by
  obtain ⟨code, arg⟩ := o
  obtain ⟨h1, h2⟩ := h
  cases code with
  | none =>
    cases arg with
    | none => rfl
    | some a =>
      simp only at h2
      simp [SrcOp.resolve, SrcOp.emittedParts, SrcField.resolveField_of_sat _ _ _ h2, bind,
        Except.bind, pure, Except.pure]
  | some c =>
    obtain ⟨c, p⟩ := c
    simp only at h1
    cases arg with
    | none =>
      simp [SrcOp.resolve, SrcOp.emittedParts, SrcField.resolveField_of_sat _ _ _ h1, bind,
        Except.bind, pure, Except.pure]
    | some a =>
      simp only at h2
      simp [SrcOp.resolve, SrcOp.emittedParts, SrcField.resolveField_of_sat _ _ _ h1,
        SrcField.resolveField_of_sat _ _ _ h2, bind, Except.bind, pure, Except.pure]

theorem SrcOp.resolve_of_not_sat (o : SrcOp) (addr size : Int) (h : ¬ o.Sat addr size) :
    o.resolve addr size = .error .constraint := by
  obtain ⟨code, arg⟩ := o
  cases code with
  | none =>
    cases arg with
    | none => exact absurd ⟨trivial, trivial⟩ h
    | some a =>
      have h2 : ¬ a.src.Satisfies addr size a.size := fun h' => h ⟨trivial, h'⟩
      simp [SrcOp.resolve, SrcField.resolveField_of_not_sat _ _ _ h2, bind,
        Except.bind, pure, Except.pure]
  | some c =>
    obtain ⟨c, p⟩ := c
    by_cases h1 : c.src.Satisfies addr size c.size
    · cases arg with
      | none => exact absurd ⟨h1, trivial⟩ h
      | some a =>
        have h2 : ¬ a.src.Satisfies addr size a.size := fun h' => h ⟨h1, h'⟩
        simp [SrcOp.resolve, SrcField.resolveField_of_sat _ _ _ h1,
          SrcField.resolveField_of_not_sat _ _ _ h2, bind, Except.bind, pure, Except.pure]
    · simp [SrcOp.resolve, SrcField.resolveField_of_not_sat _ _ _ h1, bind, Except.bind]

theorem resolveOps_of_sat (addr size : Int) (ops : List SrcOp)
    (h : ∀ o ∈ ops, o.Sat addr size) :
    resolveOps addr size ops = .ok (ops.map fun o => o.emittedParts addr size) := by
  induction ops with
  | nil => rfl
  | cons o os ih =>
    have h1 := h o (List.mem_cons_self ..)
    have h2 := ih fun o' ho' => h o' (List.mem_cons_of_mem _ ho')
    simp [resolveOps, SrcOp.resolve_of_sat _ _ _ h1, h2, bind, Except.bind]

theorem resolveOps_of_not_sat (addr size : Int) (ops : List SrcOp)
    (h : ¬ ∀ o ∈ ops, o.Sat addr size) :
    resolveOps addr size ops = .error .constraint := by
  induction ops with
  | nil => exact absurd (by simp) h
  | cons o os ih =>
    by_cases h1 : o.Sat addr size
    · have h2 : ¬ ∀ o ∈ os, o.Sat addr size := by
        intro h'; apply h; intro o' ho'
        rcases List.mem_cons.mp ho' with rfl | ho'
        · exact h1
        · exact h' o' ho'
      simp [resolveOps, SrcOp.resolve_of_sat _ _ _ h1, ih h2, bind, Except.bind]
    · simp [resolveOps, SrcOp.resolve_of_not_sat _ _ _ h1, bind, Except.bind]

/-! ## membership in the field order -/

theorem mem_prefixGroup (ops : List OpParts) (f : Field) :
    f ∈ prefixGroup ops ↔ ∃ o ∈ ops, o.code = some (f, .prefix) := by
  unfold prefixGroup
  simp only [List.mem_reverse, List.mem_filterMap]
  constructor
  · rintro ⟨o, ho, h⟩
    refine ⟨o, ho, ?_⟩
    split at h
    · next g hg => cases h; exact hg
    · cases h
  · rintro ⟨o, ho, h⟩
    exact ⟨o, ho, by rw [h]⟩

theorem mem_suffixGroup (ops : List OpParts) (f : Field) :
    f ∈ suffixGroup ops ↔ ∃ o ∈ ops, o.code = some (f, .suffix) := by
  unfold suffixGroup
  simp only [List.mem_filterMap]
  constructor
  · rintro ⟨o, ho, h⟩
    refine ⟨o, ho, ?_⟩
    split at h
    · next g hg => cases h; exact hg
    · cases h
  · rintro ⟨o, ho, h⟩
    exact ⟨o, ho, by rw [h]⟩

theorem mem_argGroup (ops : List OpParts) (f : Field) :
    f ∈ argGroup ops ↔ ∃ o ∈ ops, o.arg = some f := by
  unfold argGroup
  simp only [List.mem_filterMap]

theorem mem_fieldOrder (ops : List OpParts) (oc : Field) (sfx : Option Field) (ra rc : Bool)
    (f : Field) :
    f ∈ fieldOrder ops oc sfx ra rc ↔
      f = oc ∨ f ∈ sfx.toList ∨ ∃ o ∈ ops, (∃ p, o.code = some (f, p)) ∨ o.arg = some f := by
  rw [fieldOrder_eq_specOrder']
  have r : ∀ (b : Bool) (l : List Field), f ∈ (if b then l.reverse else l) ↔ f ∈ l := by
    intro b l; cases b <;> simp
  unfold specOrder
  simp only [List.mem_append, r, mem_prefixGroup, mem_suffixGroup, mem_argGroup,
    List.mem_singleton]
  constructor
  · rintro ((((⟨o, ho, h⟩ | h) | ⟨o, ho, h⟩) | h) | ⟨o, ho, h⟩)
    · exact Or.inr (Or.inr ⟨o, ho, Or.inl ⟨_, h⟩⟩)
    · exact Or.inl h
    · exact Or.inr (Or.inr ⟨o, ho, Or.inl ⟨_, h⟩⟩)
    · exact Or.inr (Or.inl h)
    · exact Or.inr (Or.inr ⟨o, ho, Or.inr h⟩)
  · rintro (h | h | ⟨o, ho, ⟨p, h⟩ | h⟩)
    · exact Or.inl (Or.inl (Or.inl (Or.inr h)))
    · exact Or.inl (Or.inr h)
    · cases p
      · exact Or.inl (Or.inl (Or.inl (Or.inl ⟨o, ho, h⟩)))
      · exact Or.inl (Or.inl (Or.inr ⟨o, ho, h⟩))
    · exact Or.inr ⟨o, ho, h⟩

theorem fieldOrder_ne_nil (ops : List OpParts) (oc : Field) (sfx : Option Field) (ra rc : Bool) :
    fieldOrder ops oc sfx ra rc ≠ [] := by
  intro h
  have : oc ∈ fieldOrder ops oc sfx ra rc := (mem_fieldOrder ..).mpr (Or.inl rfl)
  rw [h] at this
  cases this

theorem forall_fieldOrder (P : Field → Prop) (ops : List OpParts) (oc : Field)
    (sfx : Option Field) (ra rc : Bool) :
    (∀ f ∈ fieldOrder ops oc sfx ra rc, P f) ↔
      P oc ∧ (∀ s ∈ sfx.toList, P s) ∧
        ∀ o ∈ ops, (∀ f p, o.code = some (f, p) → P f) ∧ (∀ f, o.arg = some f → P f) := by
  constructor
  · intro h
    refine ⟨h _ ((mem_fieldOrder ..).mpr (Or.inl rfl)),
      fun s hs => h _ ((mem_fieldOrder ..).mpr (Or.inr (Or.inl hs))), fun o ho => ⟨?_, ?_⟩⟩
    · intro f p hf
      exact h _ ((mem_fieldOrder ..).mpr (Or.inr (Or.inr ⟨o, ho, Or.inl ⟨p, hf⟩⟩)))
    · intro f hf
      exact h _ ((mem_fieldOrder ..).mpr (Or.inr (Or.inr ⟨o, ho, Or.inr hf⟩)))
  · rintro ⟨h1, h2, h3⟩ f hf
    rcases (mem_fieldOrder ..).mp hf with rfl | hs | ⟨o, ho, ⟨p, hc⟩ | ha⟩
    · exact h1
    · exact h2 _ hs
    · exact (h3 o ho).1 f p hc
    · exact (h3 o ho).2 f ha

/-- `forall_fieldOrder` for the emitted parts of source operands -/
theorem forall_fieldOrder_emitted (P : Field → Prop) (addr size : Int) (ops : List SrcOp)
    (oc : Field) (sfx : Option Field) (ra rc : Bool) :
    (∀ f ∈ fieldOrder (ops.map fun o => o.emittedParts addr size) oc sfx ra rc, P f) ↔
      P oc ∧ (∀ s ∈ sfx.toList, P s) ∧
        ∀ o ∈ ops, (∀ f p, o.code = some (f, p) → P (f.emittedField addr size)) ∧
          (∀ f, o.arg = some f → P (f.emittedField addr size)) := by
  rw [forall_fieldOrder]
  simp only [List.forall_mem_map]
  refine and_congr Iff.rfl (and_congr Iff.rfl (forall_congr' fun o => forall_congr' fun _ => ?_))
  obtain ⟨code, arg⟩ := o
  refine and_congr ?_ ?_
  · cases code with
    | none => simp [SrcOp.emittedParts]
    | some c =>
      obtain ⟨c, q⟩ := c
      simp only [SrcOp.emittedParts, Option.map_some, Option.some.injEq, Prod.mk.injEq]
      constructor
      · intro h f p hf; obtain ⟨rfl, rfl⟩ := hf; exact h _ _ ⟨rfl, rfl⟩
      · intro h f p hf; obtain ⟨rfl, rfl⟩ := hf; exact h _ _ ⟨rfl, rfl⟩
  · cases arg with
    | none => simp [SrcOp.emittedParts]
    | some a =>
      simp only [SrcOp.emittedParts, Option.map_some, Option.some.injEq]
      constructor
      · intro h f hf; subst hf; exact h _ rfl
      · intro h f hf; subst hf; exact h _ rfl

/-! ## the size loop ignores values -/

/-- forget the value of a field -/
def Field.zeroVal (f : Field) : Field := { f with value := 0 }

def OpParts.mapFields (g : Field → Field) (o : OpParts) : OpParts :=
  { code := o.code.map fun (f, p) => (g f, p), arg := o.arg.map g }

theorem totalBits_map_zeroVal (fs : List Field) (acc : Nat) :
    totalBits (fs.map Field.zeroVal) acc = totalBits fs acc := by
  induction fs generalizing acc with
  | nil => rfl
  | cons f fs ih => simp only [List.map_cons, totalBits, Field.zeroVal, ih]

theorem prefixGroup_map (g : Field → Field) (ops : List OpParts) :
    (prefixGroup ops).map g = prefixGroup (ops.map (OpParts.mapFields g)) := by
  unfold prefixGroup
  rw [List.map_reverse, List.map_filterMap, List.filterMap_map]
  congr 2
  funext o
  obtain ⟨code, arg⟩ := o
  cases code with
  | none => rfl
  | some c => obtain ⟨c, p⟩ := c; cases p <;> rfl

theorem suffixGroup_map (g : Field → Field) (ops : List OpParts) :
    (suffixGroup ops).map g = suffixGroup (ops.map (OpParts.mapFields g)) := by
  unfold suffixGroup
  rw [List.map_filterMap, List.filterMap_map]
  congr 1
  funext o
  obtain ⟨code, arg⟩ := o
  cases code with
  | none => rfl
  | some c => obtain ⟨c, p⟩ := c; cases p <;> rfl

theorem argGroup_map (g : Field → Field) (ops : List OpParts) :
    (argGroup ops).map g = argGroup (ops.map (OpParts.mapFields g)) := by
  unfold argGroup
  rw [List.map_filterMap, List.filterMap_map]
  congr 1

theorem fieldOrder_map (g : Field → Field) (ops : List OpParts) (oc : Field)
    (sfx : Option Field) (ra rc : Bool) :
    (fieldOrder ops oc sfx ra rc).map g =
      fieldOrder (ops.map (OpParts.mapFields g)) (g oc) (sfx.map g) ra rc := by
  rw [fieldOrder_eq_specOrder', fieldOrder_eq_specOrder']
  unfold specOrder
  have r : ∀ (b : Bool) (l : List Field),
      (if b then l.reverse else l).map g = if b then (l.map g).reverse else l.map g := by
    intro b l; cases b <;> simp
  simp only [List.map_append, r, prefixGroup_map, suffixGroup_map, argGroup_map, List.map_cons,
    List.map_nil]
  cases sfx <;> rfl

theorem byteSizeOf_fieldOrder_emitted (addr size : Int) (ops : List SrcOp) (oc : Field)
    (sfx : Option Field) (ra rc : Bool) :
    byteSizeOf (fieldOrder (ops.map fun o => o.emittedParts addr size) oc sfx ra rc) =
      byteSizeOf (fieldOrder (ops.map SrcOp.shape) oc sfx ra rc) := by
  unfold byteSizeOf
  rw [← totalBits_map_zeroVal (fieldOrder (ops.map fun o => o.emittedParts addr size) oc sfx ra rc),
    ← totalBits_map_zeroVal (fieldOrder (ops.map SrcOp.shape) oc sfx ra rc),
    fieldOrder_map, fieldOrder_map, List.map_map, List.map_map]
  congr 3
  apply List.map_congr_left
  intro o _
  obtain ⟨code, arg⟩ := o
  cases code <;> cases arg <;> rfl

/-! ## the whole statement -/

theorem SrcOp.good_iff (o : SrcOp) (addr size : Int) :
    o.Good addr size ↔ o.Sat addr size ∧
      ((∀ f p, o.code = some (f, p) →
          Fits (f.emittedField addr size).value (f.emittedField addr size).size) ∧
        (∀ f, o.arg = some f →
          Fits (f.emittedField addr size).value (f.emittedField addr size).size)) := by
  obtain ⟨code, arg⟩ := o
  cases code with
  | none =>
    cases arg with
    | none => simp [SrcOp.Good, SrcOp.Sat]
    | some a => simp [SrcOp.Good, SrcOp.Sat, SrcField.Good, SrcField.emittedField]
  | some c =>
    obtain ⟨c, p⟩ := c
    cases arg with
    | none => simp [SrcOp.Good, SrcOp.Sat, SrcField.Good, SrcField.emittedField]
    | some a =>
      simp only [SrcOp.Good, SrcOp.Sat, SrcField.Good, SrcField.emittedField, Option.some.injEq,
        Prod.mk.injEq]
      constructor
      · rintro ⟨⟨h1, h2⟩, h3, h4⟩
        refine ⟨⟨h1, h3⟩, ?_, ?_⟩
        · rintro f q ⟨rfl, rfl⟩; exact h2
        · rintro f rfl; exact h4
      · rintro ⟨⟨h1, h3⟩, h2, h4⟩
        exact ⟨⟨h1, h2 _ _ ⟨rfl, rfl⟩⟩, h3, h4 _ rfl⟩

/-- sizes of the emitted fields are the configured ones -/
theorem sizes_pos_emitted (addr size : Int) (ops : List SrcOp) (oc : Field) (sfx : Option Field)
    (ra rc : Bool) (h0 : 1 ≤ oc.size) (h1 : ∀ s ∈ sfx.toList, 1 ≤ s.size)
    (h2 : ∀ o ∈ ops, (∀ f p, o.code = some (f, p) → 1 ≤ f.size) ∧
      (∀ f, o.arg = some f → 1 ≤ f.size)) :
    ∀ f ∈ fieldOrder (ops.map fun o => o.emittedParts addr size) oc sfx ra rc, 1 ≤ f.size := by
  rw [forall_fieldOrder_emitted (fun f => 1 ≤ f.size)]
  exact ⟨h0, h1, h2⟩

theorem specEncodeInstr_cond_iff (addr size : Int) (ops : List SrcOp) (oc : Field)
    (sfx : Option Field) (ra rc : Bool) :
    ((∀ o ∈ ops, o.Good addr size) ∧ Fits oc.value oc.size ∧ (∀ s ∈ sfx.toList, Fits s.value s.size))
      ↔ (∀ o ∈ ops, o.Sat addr size) ∧
        ∀ f ∈ fieldOrder (ops.map fun o => o.emittedParts addr size) oc sfx ra rc,
          Fits f.value f.size := by
  rw [forall_fieldOrder_emitted (fun f => Fits f.value f.size)]
  simp only [SrcOp.good_iff]
  constructor
  · rintro ⟨h1, h2, h3⟩
    exact ⟨fun o ho => (h1 o ho).1, h2, h3, fun o ho => (h1 o ho).2⟩
  · rintro ⟨h1, h2, h3, h4⟩
    exact ⟨fun o ho => ⟨h1 o ho, h4 o ho⟩, h2, h3⟩

theorem encodeInstr_of_spec_some (addr : Int) (ops : List SrcOp) (oc : Field) (sfx : Option Field)
    (ra rc : Bool) (h0 : 1 ≤ oc.size) (h1 : ∀ s ∈ sfx.toList, 1 ≤ s.size)
    (h2 : ∀ o ∈ ops, (∀ f p, o.code = some (f, p) → 1 ≤ f.size) ∧
      (∀ f, o.arg = some f → 1 ≤ f.size)) (bs : List Nat)
    (h : specEncodeInstr addr ops oc sfx ra rc = some bs) :
    encodeInstr addr ops oc sfx ra rc = .ok (some bs) := by
  unfold specEncodeInstr at h
  simp only at h
  split at h
  · next hc =>
    rw [specEncodeInstr_cond_iff (ra := ra) (rc := rc)] at hc
    obtain ⟨hsat, hfit⟩ := hc
    have hpos := sizes_pos_emitted addr (instrSize ops oc sfx ra rc) ops oc sfx ra rc h0 h1 h2
    cases h
    unfold encodeInstr
    simp only [resolveOps_of_sat _ _ _ hsat, bind, Except.bind]
    rw [getBytes_eq_spec' _ (fieldOrder_ne_nil _ _ _ _ _) fun f hf => ⟨hpos f hf, hfit f hf⟩,
      fieldOrder_eq_specOrder']
  · cases h

theorem encodeInstr_of_spec_none (addr : Int) (ops : List SrcOp) (oc : Field) (sfx : Option Field)
    (ra rc : Bool) (h : specEncodeInstr addr ops oc sfx ra rc = none) :
    encodeInstr addr ops oc sfx ra rc = .error .constraint ∨
      encodeInstr addr ops oc sfx ra rc = .error .fieldOverflow := by
  unfold specEncodeInstr at h
  simp only at h
  split at h
  · cases h
  · next hc =>
    rw [specEncodeInstr_cond_iff (ra := ra) (rc := rc)] at hc
    by_cases hsat : ∀ o ∈ ops, o.Sat addr (instrSize ops oc sfx ra rc)
    · right
      have hfit : ∃ f ∈ fieldOrder (ops.map fun o => o.emittedParts addr (instrSize ops oc sfx ra rc))
          oc sfx ra rc, ¬ Fits f.value f.size := by
        apply Classical.byContradiction
        intro hn
        apply hc
        refine ⟨hsat, fun f hf => Classical.byContradiction fun hnf => hn ⟨f, hf, hnf⟩⟩
      obtain ⟨e, he⟩ := (appendAll_error_iff _ PB.init).mpr hfit
      have hk := appendAll_error_kind _ _ _ he
      subst hk
      unfold encodeInstr
      simp only [resolveOps_of_sat _ _ _ hsat, bind, Except.bind]
      exact (getBytes_error _ _).mpr he
    · left
      unfold encodeInstr
      simp only [resolveOps_of_not_sat _ _ _ hsat, bind, Except.bind]

/-! ## independence of the statement's address -/

theorem ValSrc.resolve_addr_irrelevant (s : ValSrc) (a₁ a₂ size : Int) (w : Nat)
    (h1 : ∀ t fe mn mx zs ze, s ≠ .rel t fe mn mx zs ze) (h2 : ∀ v zs ze, s ≠ .sliced v zs ze) :
    s.resolve a₁ size w = s.resolve a₂ size w := by
  cases s with
  | rel t fe mn mx zs ze => exact absurd rfl (h1 t fe mn mx zs ze)
  | sliced v zs ze => exact absurd rfl (h2 v zs ze)
  | _ => rfl

theorem SrcField.resolveField_congr (f : SrcField) (a₁ a₂ size : Int)
    (h : f.src.resolve a₁ size f.size = f.src.resolve a₂ size f.size) :
    f.resolveField a₁ size = f.resolveField a₂ size := by
  unfold SrcField.resolveField
  rw [h]

theorem SrcOp.resolve_congr (o : SrcOp) (a₁ a₂ size : Int)
    (h1 : ∀ f p, o.code = some (f, p) → f.resolveField a₁ size = f.resolveField a₂ size)
    (h2 : ∀ f, o.arg = some f → f.resolveField a₁ size = f.resolveField a₂ size) :
    o.resolve a₁ size = o.resolve a₂ size := by
  obtain ⟨code, arg⟩ := o
  cases code with
  | none =>
    cases arg with
    | none => rfl
    | some a => simp only [SrcOp.resolve, h2 a rfl]
  | some c =>
    obtain ⟨c, p⟩ := c
    cases arg with
    | none => simp only [SrcOp.resolve, h1 c p rfl]
    | some a => simp only [SrcOp.resolve, h1 c p rfl, h2 a rfl]

theorem resolveOps_congr (a₁ a₂ size : Int) (ops : List SrcOp)
    (h : ∀ o ∈ ops, o.resolve a₁ size = o.resolve a₂ size) :
    resolveOps a₁ size ops = resolveOps a₂ size ops := by
  induction ops with
  | nil => rfl
  | cons o os ih =>
    simp only [resolveOps, h o (List.mem_cons_self ..),
      ih fun o' ho' => h o' (List.mem_cons_of_mem _ ho')]

/-! ## width fit -/

theorem fits_iff' (v : Int) (n : Nat) (hn : 1 ≤ n) :
    Fits v n ↔ -((2 : Int) ^ (n - 1)) ≤ v ∧ v ≤ (2 : Int) ^ n - 1 := by
  unfold Fits
  have : n ≠ 0 := by omega
  simp only [this, if_false]
  omega

theorem two_pow_pred_le (n : Nat) (hn : 1 ≤ n) : (2 : Int) ^ n = 2 * (2 : Int) ^ (n - 1) := by
  obtain ⟨m, rfl⟩ : ∃ m, n = m + 1 := ⟨n - 1, by omega⟩
  simp only [Nat.add_sub_cancel, Int.pow_succ]
  omega

theorem sliced_fits (v : Int) (w : Nat) : Fits (v % (2 : Int) ^ w) w := by
  have hp : (0 : Int) < (2 : Int) ^ w := Int.pow_pos (by decide)
  have h1 := Int.emod_nonneg v (Int.ne_of_gt hp)
  have h2 := Int.emod_lt_of_pos v hp
  unfold Fits
  split
  · next h0 => subst h0; simp at h2 ⊢
  · have hq : (0 : Int) < (2 : Int) ^ (w - 1) := Int.pow_pos (by decide)
    exact ⟨by omega, h2⟩

end BV
