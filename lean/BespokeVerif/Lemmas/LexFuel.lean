/-
  The lexer never runs out of fuel: every step of `lexStep` consumes at least one character and
  reports only `badExpression`, so `lexLoop` with fuel > length of the text (what `lexExpr` gives it)
  never returns `outOfFuel`.
-/
import BespokeVerif.Model.Expr
namespace BV

/-- what one lexer step may return at text `cs`: a strictly shorter rest, and no error other than
    `badExpression` -/
def StepOk (cs : List Char) (o : Option (Except Err Tok × List Char)) : Prop :=
  ∀ r rest', o = some (r, rest') → rest'.length < cs.length ∧ ∀ e, r = .error e → e = .badExpression

theorem stepOk_ite {cs : List Char} {c : Prop} [Decidable c] {a b : Option (Except Err Tok × List Char)}
    (ha : c → StepOk cs a) (hb : ¬c → StepOk cs b) : StepOk cs (if c then a else b) := by
  by_cases h : c
  · rw [if_pos h]; exact ha h
  · rw [if_neg h]; exact hb h

theorem stepOk_ok {cs : List Char} {t : Tok} {l : List Char} (h : l.length < cs.length) :
    StepOk cs (some (.ok t, l)) := by
  intro r rest' he
  cases he
  exact ⟨h, fun e he => by cases he⟩

theorem stepOk_bad {cs : List Char} {l : List Char} (h : l.length < cs.length) :
    StepOk cs (some (.error .badExpression, l)) := by
  intro r rest' he
  cases he
  exact ⟨h, fun e he => by cases he; rfl⟩

theorem stepOk_none {cs : List Char} : StepOk cs none := by
  intro r rest' he; cases he

theorem classifyIdent_err (p : List Char) (e : Err) (h : classifyIdent p = .error e) : e = .badExpression := by
  unfold classifyIdent at h
  simp only at h
  repeat' split at h
  all_goals first | (cases h; done) | (cases h; rfl) | skip

theorem stepOk_ident {cs : List Char} {p l : List Char} (h : l.length < cs.length) :
    StepOk cs (some (classifyIdent p, l)) := by
  intro r rest' he
  cases he
  exact ⟨h, fun e he => classifyIdent_err p e he⟩

theorem dropWhile_length_le (p : Char → Bool) (l : List Char) : (l.dropWhile p).length ≤ l.length := by
  induction l with
  | nil => simp
  | cons c l ih => rw [List.dropWhile_cons]; split <;> simp <;> omega

theorem lexStep_ok (cs : List Char) : StepOk cs (lexStep cs) := by
  cases cs with
  | nil => exact stepOk_none
  | cons c rest =>
    have h1 := dropWhile_length_le isBinDigit rest
    have h2 := dropWhile_length_le isHexDigit rest
    have h3 := dropWhile_length_le isHexDigit (rest.drop 1)
    have h4 := dropWhile_length_le isWordChar rest
    unfold lexStep
    refine stepOk_ite (fun _ => stepOk_ok (by simp; omega)) (fun _ => ?_)
    refine stepOk_ite (fun _ => stepOk_ok (by simp; omega)) (fun _ => ?_)
    refine stepOk_ite (fun _ => stepOk_ok (by simp at h3 ⊢; omega)) (fun _ => ?_)
    refine stepOk_ite (fun g => stepOk_ok ?_) (fun _ => ?_)
    · -- [0-9a-fA-F]+H : the run of hex digits is followed by `H`, which is dropped too
      simp only [Bool.and_eq_true, beq_iff_eq] at g
      have hne : (List.dropWhile isHexDigit (c :: rest)).length ≥ 1 := by
        have : (List.dropWhile isHexDigit (c :: rest)).head? = some 'H' := g.1.2
        cases hd : List.dropWhile isHexDigit (c :: rest) with
        | nil => rw [hd] at this; simp at this
        | cons _ _ => simp
      have hc : isHexDigit c = true := g.1.1
      rw [List.dropWhile_cons_of_pos hc] at hne ⊢
      simp only [List.length_drop, List.length_cons]
      omega
    refine stepOk_ite (fun g => stepOk_ok ?_) (fun _ => ?_)
    · rw [List.dropWhile_cons_of_pos g]
      have := dropWhile_length_le Char.isDigit rest
      simp only [List.length_cons]; omega
    split
    · exact stepOk_ok (by simp)
    refine stepOk_ite (fun _ => stepOk_ok (by simp; omega)) (fun _ => ?_)
    refine stepOk_ite (fun _ => stepOk_ok (by simp; omega)) (fun _ => ?_)
    refine stepOk_ite (fun _ => stepOk_ok (by simp)) (fun _ => ?_)
    refine stepOk_ite (fun _ => stepOk_ok (by simp; omega)) (fun _ => ?_)
    refine stepOk_ite (fun _ => stepOk_ok (by simp; omega)) (fun _ => ?_)
    refine stepOk_ite (fun _ => stepOk_ident (by simp; omega)) (fun _ => ?_)
    refine stepOk_ite (fun g => stepOk_ident ?_) (fun _ => ?_)
    · rw [List.dropWhile_cons_of_pos g]
      simp only [List.length_cons]; omega
    refine stepOk_ite (fun _ => stepOk_ok (by simp; omega)) (fun _ => ?_)
    refine stepOk_ite (fun _ => stepOk_bad (by simp)) (fun _ => ?_)
    exact stepOk_none

/-- fuel above the length of the text is enough -/
theorem lexLoop_ne_oof (f : Nat) (cs : List Char) (h : cs.length < f) : lexLoop f cs ≠ .error .outOfFuel := by
  induction f generalizing cs with
  | zero => omega
  | succ f ih =>
    cases cs with
    | nil => simp [lexLoop]
    | cons c rest =>
      rw [lexLoop]
      have hs := lexStep_ok (c :: rest)
      cases hst : lexStep (c :: rest) with
      | none =>
        simp only
        split
        · exact ih rest (by simp at h; omega)
        · intro hc; cases hc
      | some p =>
        obtain ⟨r, rest'⟩ := p
        obtain ⟨hlen, herr⟩ := hs r rest' hst
        cases r with
        | ok t =>
          simp only
          have := ih rest' (by simp at h hlen; omega)
          cases hl : lexLoop f rest' with
          | error e => intro hc; simp [bind, Except.bind] at hc; exact this (by rw [hl, hc])
          | ok ts => intro hc; simp [bind, Except.bind] at hc
        | error e =>
          simp only
          have := herr e rfl
          subst this
          intro hc; cases hc

theorem lexExpr_ne_oof (s : List Char) : lexExpr s ≠ .error .outOfFuel :=
  lexLoop_ne_oof _ s (by omega)

end BV
