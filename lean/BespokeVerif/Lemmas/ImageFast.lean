/-
  Whole-run facts about the emitted lines (every byte line emits as many bytes as the first pass reserved; a passing
  overlap check means no two unmuted byte lines share an address) and the line-by-line image `imageFast`,
  proved equal to the dictionary route of `assemble`.
-/
import BespokeVerif.Lemmas.Image
import BespokeVerif.Lemmas.Layout
import BespokeVerif.Model.Parse
namespace BV

/-- a byte line emits exactly as many bytes as were reserved for it (when that is not negative) -/
def WfEm (e : Emitted) : Prop := e.isByte = true → (e.bytes.length : Int) = if 0 ≤ e.size then e.size else 0

/-- a placed line comes from a step of the first pass, or is a predefined data block -/
def GoodPlaced (cfg : Cfg) (p : Placed) : Prop :=
  (∃ zs L zs' L', firstPassStep cfg (zs, L) p.line = .ok (p, zs', L')) ∨
  (∃ sz v : Int, p.line.stmt = .fill (.num sz) (.num v) ∧ p.size = sz)

theorem firstPass_good (cfg : Cfg) : ∀ (lines : List Line) (st : Zones × Labels) (out : List Placed) (zs : Zones) (L : Labels),
    firstPass cfg lines st = .ok (out, zs, L) → ∀ p ∈ out, GoodPlaced cfg p := by
  intro lines
  induction lines with
  | nil =>
    intro st out zs L h p hp
    simp [firstPass] at h
    rw [h.1] at hp; cases hp
  | cons ln rest ih =>
    intro st out zs L h p hp
    obtain ⟨p1, zs1, L1, ps, h1, h2, rfl⟩ := firstPass_cons_ok h
    rcases List.mem_cons.mp hp with rfl | hp'
    · obtain ⟨z, addr, size, _, _, _, _, hpe⟩ := firstPassStep_ok (zs := st.1) (L := st.2) h1
      left
      refine ⟨st.1, st.2, zs1, L1, ?_⟩
      have : p.line = ln := by rw [hpe]
      rw [this]; exact h1
    · exact ih (zs1, L1) ps zs L h2 p hp'

theorem predefined_good (cfg : Cfg) : ∀ p ∈ predefinedLines cfg, GoodPlaced cfg p := by
  intro p hp
  unfold predefinedLines at hp
  simp only [List.mem_map] at hp
  obtain ⟨⟨n, addr, value, size⟩, _, rfl⟩ := hp
  right
  exact ⟨size, value, rfl, rfl⟩

/-- only a fill with a negative count reserves a negative size -/
theorem placeOf_neg_fill {cfg : Cfg} {zs : Zones} {L : Labels} {ln : Line} {z : Zone} {a s : Int}
    (hp : placeOf cfg zs L ln z = .ok (a, s)) (hneg : s < 0) : ∃ c v, ln.stmt = .fill c v := by
  obtain ⟨stmt, sc, zone, muted, file, cv⟩ := ln
  cases stmt <;> simp only [placeOf] at hp
  case fill c v => exact ⟨c, v, rfl⟩
  case data w vals =>
    cases hp
    have := Int.mul_nonneg (Int.natCast_nonneg w) (Int.natCast_nonneg vals.length)
    omega
  case bytes bs => cases hp; omega
  case str raw term => cases hp; omega
  case instr o args => cases hp; omega
  case zerountil e =>
    cases hv : valueE (envOf L cfg.regs sc) e with
    | error er => rw [hv] at hp; cases hp
    | ok t => rw [hv] at hp; simp only [Except.bind] at hp; cases hp; split at hneg <;> omega
  case isa mn fs =>
    cases hv : isaSize cfg mn fs with
    | error er => rw [hv] at hp; cases hp
    | ok n => rw [hv] at hp; simp only [Except.bind] at hp; cases hp; omega
  case org e zn =>
    cases hv : valueE (envOf L cfg.regs sc) e with
    | error er => rw [hv] at hp; cases hp
    | ok v =>
      rw [hv] at hp; simp only [Except.bind] at hp
      split at hp
      · cases hp
      · rename_i g _
        have key : ∀ value : Int, (if value < g.start then (Except.error Err.zoneBounds : Except Err (Int × Int))
            else if value > g.stop then Except.error Err.zoneBounds else Except.ok (value, 0)) = Except.ok (a, s) → s = 0 := by
          intro value h
          by_cases h1 : value < g.start
          · rw [if_pos h1] at h; cases h
          · rw [if_neg h1] at h
            by_cases h2 : value > g.stop
            · rw [if_pos h2] at h; cases h
            · rw [if_neg h2] at h
              simp only [Except.ok.injEq, Prod.mk.injEq] at h
              exact h.2.symm
        cases zn with
        | none => have := key v hp; omega
        | some nm => have := key (z.start + v) hp; omega
  case align p =>
    cases p with
    | none =>
      simp only [Except.bind] at hp
      by_cases h0 : cfg.pageSize = 0
      · rw [if_pos h0] at hp; cases hp
      · rw [if_neg h0] at hp; simp only [Except.ok.injEq, Prod.mk.injEq] at hp; omega
    | some e =>
      simp only at hp
      cases hv : valueE (envOf L cfg.regs sc) e with
      | error er => rw [hv] at hp; cases hp
      | ok ps =>
        rw [hv] at hp; simp only [Except.bind] at hp
        by_cases h0 : ps = 0
        · rw [if_pos h0] at hp; cases hp
        · rw [if_neg h0] at hp; simp only [Except.ok.injEq, Prod.mk.injEq] at hp; omega
  all_goals (cases hp; omega)

theorem lineBytes_fill_len (cfg : Cfg) (L : Labels) (p : Placed) (bs : List Nat) (c v : E)
    (hst : p.line.stmt = .fill c v) (hb : lineBytes cfg L p = .ok bs) : bs.length = p.size.toNat := by
  unfold lineBytes at hb
  rw [hst] at hb
  simp only at hb
  cases hv : valueE (envOf L cfg.regs p.line.scope) v with
  | error e => rw [hv] at hb; cases hb
  | ok x =>
    rw [hv] at hb
    simp only [bind, Except.bind] at hb
    cases hb
    simp

theorem lineBytes_good (cfg : Cfg) (L : Labels) (p : Placed) (bs : List Nat) (hg : GoodPlaced cfg p)
    (hb : lineBytes cfg L p = .ok bs) (hbyte : isByteLine p.line.stmt = true) :
    (bs.length : Int) = if 0 ≤ p.size then p.size else 0 := by
  by_cases hpos : 0 ≤ p.size
  · rw [if_pos hpos]
    rcases hg with ⟨zs, L0, zs', L', hstep⟩ | ⟨sz, v, hst, hsz⟩
    · obtain ⟨z₀, addr, size, _, hp, _, _, hpe⟩ := firstPassStep_ok hstep
      have hb' : lineBytes cfg L { line := p.line, addr := addr, size := size } = .ok bs := by rw [← hpe]; exact hb
      have hs : size = p.size := by rw [hpe]
      rw [← hs]
      exact lineBytes_length hp hb' hbyte (by omega)
    · have := lineBytes_fill_len cfg L p bs _ _ hst hb
      omega
  · rw [if_neg hpos]
    have hfill : ∃ c v, p.line.stmt = .fill c v := by
      rcases hg with ⟨zs, L0, zs', L', hstep⟩ | ⟨sz, v, hst, hsz⟩
      · obtain ⟨z, addr, size, _, hp, _, _, hpe⟩ := firstPassStep_ok hstep
        have hs : size = p.size := by rw [hpe]
        exact placeOf_neg_fill hp (by omega)
      · exact ⟨_, _, hst⟩
    obtain ⟨c, v, hst⟩ := hfill
    have := lineBytes_fill_len cfg L p bs c v hst hb
    omega

theorem emitAll_wf (cfg : Cfg) (L : Labels) : ∀ (ps : List Placed) (es : List Emitted),
    (∀ p ∈ ps, GoodPlaced cfg p) → emitAll cfg L ps = .ok es →
    (∀ e ∈ es, WfEm e) ∧ es.map (·.addr) = ps.map (·.addr) := by
  intro ps
  induction ps with
  | nil => intro es _ h; simp [emitAll] at h; subst h; simp
  | cons p rest ih =>
    intro es hg h
    rw [emitAll] at h
    cases hb : lineBytes cfg L p with
    | error e => rw [hb] at h; cases h
    | ok bs =>
      rw [hb] at h
      simp only [bind, Except.bind] at h
      cases hr : emitAll cfg L rest with
      | error e => rw [hr] at h; cases h
      | ok es' =>
        rw [hr] at h
        cases h
        obtain ⟨hwf, haddr⟩ := ih es' (fun q hq => hg q (List.mem_cons_of_mem _ hq)) hr
        refine ⟨?_, by simp [haddr]⟩
        intro e he
        rcases List.mem_cons.mp he with rfl | he'
        · intro hbyte
          exact lineBytes_good cfg L p bs (hg p (List.mem_cons_self ..)) hb hbyte
        · exact hwf e he'

/-- everything the second pass emits: every byte line has as many bytes as were reserved -/
theorem assembleLines_wf (cfg : Cfg) (files : List (List Stmt)) (es : List Emitted) (L : Labels)
    (h : assembleLines cfg files = .ok (es, L)) : ∀ e ∈ es, WfEm e := by
  unfold assembleLines at h
  cases hp : assemblePlaced cfg files with
  | error e => rw [hp] at h; cases h
  | ok r =>
    obtain ⟨sorted, L1⟩ := r
    rw [hp] at h
    simp only [bind, Except.bind] at h
    cases he : emitAll cfg L1 sorted with
    | error e => rw [he] at h; cases h
    | ok es' =>
      rw [he] at h
      cases h
      -- the placed lines
      unfold assemblePlaced at hp
      cases h0 : initLabels cfg with
      | error e => rw [h0] at hp; cases hp
      | ok L0 =>
        rw [h0] at hp
        simp only [bind, Except.bind] at hp
        cases hz : initZones cfg.bits cfg.origin cfg.preZones with
        | error e => rw [hz] at hp; cases hp
        | ok zs0 =>
          rw [hz] at hp
          simp only at hp
          cases hr : readFile cfg files (files.length + 1) 0 { labels := L0, zones := zs0, used := [], nextLoc := 0, syms := cfg.preSyms } with
          | error e => rw [hr] at hp; cases hp
          | ok rr =>
            obtain ⟨lines, st⟩ := rr
            rw [hr] at hp
            simp only at hp
            cases hf : firstPass cfg lines (st.zones, st.labels) with
            | error e => rw [hf] at hp; cases hp
            | ok fr =>
              obtain ⟨placed, zsf, Lf⟩ := fr
              rw [hf] at hp
              simp only [Except.ok.injEq, Prod.mk.injEq] at hp
              obtain ⟨rfl, rfl⟩ := hp
              have hgood : ∀ p ∈ sortByAddr (placed ++ predefinedLines cfg), GoodPlaced cfg p := by
                intro p hp
                have hm := (sortByAddr_perm' (placed ++ predefinedLines cfg)).mem_iff.mp hp
                rcases List.mem_append.mp hm with h1 | h2
                · exact firstPass_good cfg lines _ placed zsf Lf hf p h1
                · exact predefined_good cfg p h2
              exact (emitAll_wf cfg _ _ _ hgood he).1

/-- a passing overlap check on well-formed lines: no two unmuted byte lines cover a common address -/
theorem noCommon_of_check (es : List Emitted) (hwf : ∀ e ∈ es, WfEm e) (h : overlapCheck none es = .ok ()) :
    NoCommon es := by
  have hch := (overlapCheck_ok_chain es none h).2
  rw [List.pairwise_filter] at hch
  unfold NoCommon
  refine List.Pairwise.imp_of_mem ?_ hch
  intro e e' he he' hS a hcc
  obtain ⟨hc, hc'⟩ := hcc
  have h1 := (cov_iff e a).mp hc
  have h2 := (cov_iff e' a).mp hc'
  have w1 := hwf e he h1.1
  have w2 := hwf e' he' h2.1
  have o1 : occ e = true := by
    simp only [occ, h1.1, Bool.true_and, decide_eq_true_eq]
    split at w1 <;> omega
  have o2 : occ e' = true := by
    simp only [occ, h2.1, Bool.true_and, decide_eq_true_eq]
    split at w2 <;> omega
  have := hS o1 o2
  split at w1 <;> omega

/-! ## the highest address that receives a byte, computed from the lines -/

theorem bump_ge (acc : Option Int) (v : Int) : v ≤ bump acc v := by
  cases acc <;> simp [bump] <;> omega
theorem bump_ge_acc (acc : Option Int) (v y : Int) (h : acc = some y) : y ≤ bump acc v := by
  subst h; simp [bump]; omega
theorem bump_cases (acc : Option Int) (v : Int) : bump acc v = v ∨ acc = some (bump acc v) := by
  cases acc with
  | none => left; rfl
  | some y =>
    simp only [bump]
    by_cases h : y ≤ v
    · left; omega
    · right; congr 1; omega

theorem cov_bounds (e : Emitted) (a : Int) (h : cov e a = true) :
    (e.isByte && !e.muted && decide (0 < e.bytes.length)) = true ∧ a ≤ e.addr + e.bytes.length - 1 := by
  have := (cov_iff e a).mp h
  refine ⟨?_, by omega⟩
  simp only [this.1, this.2.1, Bool.not_false, Bool.and_self, Bool.true_and, decide_eq_true_eq]
  omega

theorem lastFold_spec (es : List Emitted) : ∀ (acc : Option Int),
    (∀ x, es.foldl lastStep acc = some x →
        ((acc = some x) ∨ ∃ e ∈ es, cov e x = true) ∧ (∀ y, acc = some y → y ≤ x) ∧
        ∀ e ∈ es, ∀ a, cov e a = true → a ≤ x) ∧
    (es.foldl lastStep acc = none → acc = none ∧ ∀ e ∈ es, ∀ a, cov e a = false) := by
  induction es with
  | nil =>
    intro acc
    refine ⟨fun x h => ⟨Or.inl h, fun y hy => by simp at h; rw [h] at hy; cases hy; exact Int.le_refl _, by simp⟩, fun h => ⟨h, by simp⟩⟩
  | cons e rest ih =>
    intro acc
    rw [List.foldl_cons]
    by_cases hc : (e.isByte && !e.muted && decide (0 < e.bytes.length)) = true
    · -- the line emits: its last address enters the maximum
      have hstep : lastStep acc e = some (bump acc (e.addr + e.bytes.length - 1)) := by simp [lastStep, hc]
      rw [hstep]
      obtain ⟨ih1, ih2⟩ := ih (some (bump acc (e.addr + e.bytes.length - 1)))
      have hcovlast : cov e (e.addr + e.bytes.length - 1) = true := by
        simp only [Bool.and_eq_true, Bool.not_eq_true', decide_eq_true_eq] at hc
        rw [cov_iff]; exact ⟨hc.1.1, hc.1.2, by omega, by omega⟩
      refine ⟨?_, fun h => absurd (ih2 h).1 (by simp)⟩
      intro x hx
      obtain ⟨h1, h2, h3⟩ := ih1 x hx
      have hm := h2 _ rfl
      refine ⟨?_, ?_, ?_⟩
      · rcases h1 with h1 | ⟨e', he', hce⟩
        · simp only [Option.some.injEq] at h1
          rcases bump_cases acc (e.addr + e.bytes.length - 1) with hb | hb
          · right; exact ⟨e, List.mem_cons_self .., by rw [← h1, hb]; exact hcovlast⟩
          · left; rw [hb, h1]
        · right; exact ⟨e', List.mem_cons_of_mem _ he', hce⟩
      · intro y hy
        have := bump_ge_acc acc (e.addr + e.bytes.length - 1) y hy
        omega
      · intro e' he' a hca
        rcases List.mem_cons.mp he' with rfl | he''
        · have h1' := (cov_bounds _ a hca).2
          have h2' := bump_ge acc (e'.addr + e'.bytes.length - 1)
          omega
        · exact h3 e' he'' a hca
    · have hc' : (e.isByte && !e.muted && decide (0 < e.bytes.length)) = false := by simpa using hc
      have hstep : lastStep acc e = acc := by simp [lastStep, hc']
      rw [hstep]
      obtain ⟨ih1, ih2⟩ := ih acc
      have hnocov : ∀ a, cov e a = false := by
        intro a
        cases h : cov e a with
        | false => rfl
        | true => rw [(cov_bounds e a h).1] at hc'; cases hc'
      refine ⟨?_, ?_⟩
      · intro x hx
        obtain ⟨h1, h2, h3⟩ := ih1 x hx
        refine ⟨?_, h2, ?_⟩
        · rcases h1 with h1 | ⟨e', he', hce⟩
          · exact Or.inl h1
          · exact Or.inr ⟨e', List.mem_cons_of_mem _ he', hce⟩
        · intro e' he' a hca
          rcases List.mem_cons.mp he' with rfl | he''
          · rw [hnocov a] at hca; cases hca
          · exact h3 e' he'' a hca
      · intro h
        obtain ⟨h1, h2⟩ := ih2 h
        refine ⟨h1, ?_⟩
        intro e' he' a
        rcases List.mem_cons.mp he' with rfl | he''
        · exact hnocov a
        · exact h2 e' he'' a

/-- the default end of the image: the highest key of the address map is the highest last-byte address -/
theorem maxAddr_memMap_eq_last (es : List Emitted) : maxAddr (memMap es) = lastByteAddr es := by
  obtain ⟨hsome, hnone⟩ := lastFold_spec es none
  cases hl : lastByteAddr es with
  | none =>
    have hno := (hnone hl).2
    have hempty : memMap es = [] := by
      cases hm : memMap es with
      | nil => rfl
      | cons kv rest =>
        obtain ⟨e, he, hc⟩ := memMap_mem_covered es kv.1 kv.2 (by rw [hm]; exact List.mem_cons_self ..)
        rw [hno e he kv.1] at hc; cases hc
    rw [hempty]; rfl
  | some x =>
    obtain ⟨h1, _, h3⟩ := hsome x hl
    have hcov : ∃ e ∈ es, cov e x = true := by
      rcases h1 with h1 | h1
      · cases h1
      · exact h1
    obtain ⟨b, hb⟩ := mem_of_mapGet_isSome _ x (mapGet_memMap_isSome es x hcov)
    cases hm : maxAddr (memMap es) with
    | none =>
      have := (maxAddr_none_iff' _).mp hm
      rw [this] at hb; cases hb
    | some x' =>
      obtain ⟨⟨b', hb'⟩, hmax⟩ := maxAddr_is_max' _ x' hm
      have hle : x ≤ x' := hmax x b hb
      obtain ⟨e', he', hc'⟩ := memMap_mem_covered es x' b' hb'
      have hge : x' ≤ x := h3 e' he' x' hc'
      congr 1; omega

theorem imageOf_eq_fast (es : List Emitted) (hno : NoCommon es) (start : Int) (stop : Option Int) (fill : Nat) :
    imageOf start stop fill (memMap es) = imageFast start stop fill es := by
  rw [imageOf_eq_spec es hno, maxAddr_memMap_eq_last]
  rfl

theorem lookupLines_eq (es : List Emitted) (fill : Nat) (a : Int) :
    lookupLines (imageLines es) fill a = specImageByte es fill a := by
  unfold lookupLines imageLines specImageByte
  induction es with
  | nil => rfl
  | cons e es ih =>
    by_cases hb : (e.isByte && !e.muted) = true
    · have hf : List.filter (fun e => e.isByte && !e.muted) (e :: es) = e :: List.filter (fun e => e.isByte && !e.muted) es :=
        List.filter_cons_of_pos (p := fun (e : Emitted) => e.isByte && !e.muted) hb
      rw [hf, List.map_cons, List.find?_cons, List.find?_cons]
      simp only [List.size_toArray]
      by_cases hc : (decide (e.addr ≤ a) && decide (a < e.addr + ↑e.bytes.length)) = true
      · have : (e.isByte && !e.muted && decide (e.addr ≤ a) && decide (a < e.addr + ↑e.bytes.length)) = true := by
          simp only [Bool.and_eq_true] at hb hc ⊢
          exact ⟨⟨⟨hb.1, hb.2⟩, hc.1⟩, hc.2⟩
        simp only [hc, this]
        simp
      · have hc' : (decide (e.addr ≤ a) && decide (a < e.addr + ↑e.bytes.length)) = false := by simpa using hc
        have : (e.isByte && !e.muted && decide (e.addr ≤ a) && decide (a < e.addr + ↑e.bytes.length)) = false := by
          rw [Bool.and_assoc, hc']; simp
        simp only [hc', this]
        exact ih
    · have hb' : (e.isByte && !e.muted) = false := by simpa using hb
      have hf : List.filter (fun e => e.isByte && !e.muted) (e :: es) = List.filter (fun e => e.isByte && !e.muted) es :=
        List.filter_cons_of_neg (p := fun (e : Emitted) => e.isByte && !e.muted) (by simp [hb'])
      rw [hf, List.find?_cons]
      have : (e.isByte && !e.muted && decide (e.addr ≤ a) && decide (a < e.addr + ↑e.bytes.length)) = false := by
        rw [hb']; simp
      simp only [this]
      exact ih

theorem imageFastA_eq (start : Int) (stop : Option Int) (fill : Nat) (es : List Emitted) :
    imageFastA start stop fill es = imageFast start stop fill es := by
  unfold imageFastA imageFast
  simp only [lookupLines_eq]
  all_goals (cases stop <;> rfl)

theorem assemble_eq_fast (cfg : Cfg) (files : List (List Stmt)) (start : Int) (stop : Option Int) (fill : Nat) :
    assemble cfg files start stop fill = assembleFast cfg files start stop fill := by
  unfold assemble assembleFast
  cases hl : assembleLines cfg files with
  | error e => rfl
  | ok r =>
    obtain ⟨es, L⟩ := r
    simp only [bind, Except.bind]
    cases ho : overlapCheck none es with
    | error e => rfl
    | ok u =>
      cases u
      simp only
      rw [imageOf_eq_fast es (noCommon_of_check es (assembleLines_wf cfg files es L hl) ho), imageFastA_eq]

theorem asmText_eq_fast (cfg : Cfg) (pc : PCfg) (files : List String) (start : Int) (stop : Option Int) (fill : Nat) :
    asmText cfg pc files start stop fill = asmTextFast cfg pc files start stop fill := by
  unfold asmText asmTextFast
  simp only [assemble_eq_fast]

theorem emitAll_sorted (cfg : Cfg) (L : Labels) (ps : List Placed) (es : List Emitted)
    (hg : ∀ p ∈ ps, GoodPlaced cfg p) (h : emitAll cfg L ps = .ok es)
    (hs : ps.Pairwise fun a b => a.addr ≤ b.addr) : es.Pairwise fun a b => a.addr ≤ b.addr := by
  have hm := (emitAll_wf cfg L ps es hg h).2
  have h1 : (ps.map (·.addr)).Pairwise (· ≤ ·) := by rw [List.pairwise_map]; exact hs
  rw [← hm, List.pairwise_map] at h1
  exact h1

/-- the emitted lines of any program are sorted by address (the stable sort of the placed lines) -/
theorem assembleLines_sorted (cfg : Cfg) (files : List (List Stmt)) (es : List Emitted) (L : Labels)
    (h : assembleLines cfg files = .ok (es, L)) : es.Pairwise fun a b => a.addr ≤ b.addr := by
  unfold assembleLines at h
  cases hp : assemblePlaced cfg files with
  | error e => rw [hp] at h; cases h
  | ok r =>
    obtain ⟨sorted, L1⟩ := r
    rw [hp] at h
    simp only [bind, Except.bind] at h
    cases he : emitAll cfg L1 sorted with
    | error e => rw [he] at h; cases h
    | ok es' =>
      rw [he] at h
      cases h
      unfold assemblePlaced at hp
      cases h0 : initLabels cfg with
      | error e => rw [h0] at hp; cases hp
      | ok L0 =>
        rw [h0] at hp
        simp only [bind, Except.bind] at hp
        cases hz : initZones cfg.bits cfg.origin cfg.preZones with
        | error e => rw [hz] at hp; cases hp
        | ok zs0 =>
          rw [hz] at hp
          simp only at hp
          cases hr : readFile cfg files (files.length + 1) 0 { labels := L0, zones := zs0, used := [], nextLoc := 0, syms := cfg.preSyms } with
          | error e => rw [hr] at hp; cases hp
          | ok rr =>
            obtain ⟨lines, st⟩ := rr
            rw [hr] at hp
            simp only at hp
            cases hf : firstPass cfg lines (st.zones, st.labels) with
            | error e => rw [hf] at hp; cases hp
            | ok fr =>
              obtain ⟨placed, zsf, Lf⟩ := fr
              rw [hf] at hp
              simp only [Except.ok.injEq, Prod.mk.injEq] at hp
              obtain ⟨rfl, rfl⟩ := hp
              have hgood : ∀ p ∈ sortByAddr (placed ++ predefinedLines cfg), GoodPlaced cfg p := by
                intro p hp
                have hm := (sortByAddr_perm' (placed ++ predefinedLines cfg)).mem_iff.mp hp
                rcases List.mem_append.mp hm with h1 | h2
                · exact firstPass_good cfg lines _ placed zsf Lf hf p h1
                · exact predefined_good cfg p h2
              exact emitAll_sorted cfg _ _ _ hgood he (sortByAddr_sorted' _)

/-- a window inside a window is cut out of it: the bytes of `s'..e'` are the bytes at offsets `s'-s ..` of the image of `s..e` -/
theorem imageFast_subwindow (es : List Emitted) (fill : Nat) (s e s' e' : Int) (h1 : s ≤ s') (h2 : s' ≤ e' + 1) (h3 : e' ≤ e) :
    imageFast s' (some e') fill es = ((imageFast s (some e) fill es).drop (s' - s).toNat).take (e' + 1 - s').toNat := by
  unfold imageFast
  simp only []
  apply List.ext_getElem
  · simp only [List.length_map, List.length_range, List.length_take, List.length_drop]
    omega
  · intro i hi1 hi2
    simp only [List.getElem_map, List.getElem_range, List.getElem_take, List.getElem_drop]
    congr 1
    simp only [List.length_map, List.length_range] at hi1
    omega

end BV
