/-
  Helper lemmas for property C19 (ISA definition validation and version gates).
  Core Lean only.
-/
import BespokeVerif.Model.Config
import BespokeVerif.Lemmas.Bits
namespace BV

/-! ## `relCmp`: uniform unfolding through head (default 0) and tail -/

theorem relCmp_unfold (a b : List Nat) :
    relCmp a b = if a.headD 0 < b.headD 0 then .lt else if a.headD 0 > b.headD 0 then .gt
      else relCmp a.tail b.tail := by
  cases a with
  | nil =>
    cases b with
    | nil => simp [relCmp]
    | cons y ys =>
      simp only [relCmp, List.headD_nil, List.headD_cons, List.tail_nil, List.tail_cons]
      by_cases h : y = 0
      · simp [h]
      · have : 0 < y := by omega
        simp [h, this]
  | cons x xs =>
    cases b with
    | nil =>
      simp only [relCmp, List.headD_nil, List.headD_cons, List.tail_nil, List.tail_cons]
      by_cases h : x = 0
      · simp [h]
      · have : 0 < x := by omega
        simp [h, this]
    | cons y ys => simp [relCmp]

theorem relCmp_refl' (a : List Nat) : relCmp a a = .eq := by
  induction a with
  | nil => simp [relCmp]
  | cons x xs ih => simp [relCmp, ih]

theorem relCmp_swap' (a b : List Nat) : relCmp b a = (relCmp a b).swap := by
  fun_induction relCmp a b <;> simp_all [relCmp]
  · omega
  · split
    · omega
    · split
      · omega
      · rfl

theorem relCmp_pad' (a : List Nat) : relCmp a (a ++ [0]) = .eq := by
  induction a with
  | nil => simp [relCmp]
  | cons x xs ih => simp [relCmp, ih]

/-- an `eq` on the left is a congruence -/
theorem relCmp_eq_left_aux (n : Nat) : ∀ (a b c : List Nat), a.length ≤ n → b.length ≤ n → c.length ≤ n →
    relCmp a b = .eq → relCmp a c = relCmp b c := by
  induction n with
  | zero =>
    intro a b c ha hb hc _
    have ha' : a = [] := List.eq_nil_of_length_eq_zero (by omega)
    have hb' : b = [] := List.eq_nil_of_length_eq_zero (by omega)
    subst ha' hb'; rfl
  | succ n ih =>
    intro a b c ha hb hc h
    rw [relCmp_unfold a b] at h
    rw [relCmp_unfold a c, relCmp_unfold b c]
    have hta : a.tail.length ≤ n := by rw [List.length_tail]; omega
    have htb : b.tail.length ≤ n := by rw [List.length_tail]; omega
    have htc : c.tail.length ≤ n := by rw [List.length_tail]; omega
    split at h
    · cases h
    · split at h
      · cases h
      · have hh : a.headD 0 = b.headD 0 := by omega
        rw [hh, ih _ _ _ hta htb htc h]

theorem relCmp_eq_left {a b : List Nat} (c : List Nat) (h : relCmp a b = .eq) : relCmp a c = relCmp b c :=
  relCmp_eq_left_aux (a.length + b.length + c.length) a b c (by omega) (by omega) (by omega) h

theorem relCmp_eq_right {b c : List Nat} (a : List Nat) (h : relCmp b c = .eq) : relCmp a b = relCmp a c := by
  have h' : relCmp c b = .eq := by rw [relCmp_swap' b c, h]; rfl
  rw [relCmp_swap' b a, relCmp_swap' c a, relCmp_eq_left a h']

theorem relCmp_lt_trans_aux (n : Nat) : ∀ (a b c : List Nat), a.length ≤ n → b.length ≤ n → c.length ≤ n →
    relCmp a b = .lt → relCmp b c = .lt → relCmp a c = .lt := by
  induction n with
  | zero =>
    intro a b c ha hb hc h _
    have ha' : a = [] := List.eq_nil_of_length_eq_zero (by omega)
    have hb' : b = [] := List.eq_nil_of_length_eq_zero (by omega)
    subst ha' hb'; simp [relCmp] at h
  | succ n ih =>
    intro a b c ha hb hc h1 h2
    rw [relCmp_unfold a b] at h1
    rw [relCmp_unfold b c] at h2
    rw [relCmp_unfold a c]
    have hta : a.tail.length ≤ n := by rw [List.length_tail]; omega
    have htb : b.tail.length ≤ n := by rw [List.length_tail]; omega
    have htc : c.tail.length ≤ n := by rw [List.length_tail]; omega
    generalize a.headD 0 = x at h1 ⊢
    generalize b.headD 0 = y at h1 h2 ⊢
    generalize c.headD 0 = z at h2 ⊢
    by_cases hab : x < y
    · by_cases hbc : y < z
      · have : x < z := by omega
        simp only [this, ↓reduceIte]
      · by_cases hbc' : y > z
        · simp only [hbc, hbc', ↓reduceIte, reduceCtorEq] at h2
        · have : x < z := by omega
          simp only [this, ↓reduceIte]
    · by_cases hab' : x > y
      · simp only [hab, hab', ↓reduceIte, reduceCtorEq] at h1
      · simp only [hab, hab', ↓reduceIte] at h1
        by_cases hbc : y < z
        · have : x < z := by omega
          simp only [this, ↓reduceIte]
        · by_cases hbc' : y > z
          · simp only [hbc, hbc', ↓reduceIte, reduceCtorEq] at h2
          · simp only [hbc, hbc', ↓reduceIte] at h2
            have e1 : ¬ x < z := by omega
            have e2 : ¬ x > z := by omega
            simp only [e1, e2, ↓reduceIte]
            exact ih _ _ _ hta htb htc h1 h2

theorem relCmp_lt_trans {a b c : List Nat} (h1 : relCmp a b = .lt) (h2 : relCmp b c = .lt) : relCmp a c = .lt :=
  relCmp_lt_trans_aux (a.length + b.length + c.length) a b c (by omega) (by omega) (by omega) h1 h2

/-! ## `preCmp` -/

theorem preCmp_refl (p : Option (Nat × Nat)) : preCmp p p = .eq := by
  rcases p with _ | ⟨k, n⟩ <;> simp [preCmp]

theorem preCmp_swap (p q : Option (Nat × Nat)) : preCmp q p = (preCmp p q).swap := by
  rcases p with _ | ⟨k, n⟩ <;> rcases q with _ | ⟨k', n'⟩ <;> simp only [preCmp, Ordering.swap]
  by_cases h1 : k < k' <;> by_cases h2 : k > k' <;> by_cases h3 : n < n' <;> by_cases h4 : n > n' <;>
    simp [h1, h2, h3, h4] <;> omega

theorem preCmp_some_ne_gt (k n k' n' : Nat) :
    preCmp (some (k, n)) (some (k', n')) ≠ .gt ↔ k < k' ∨ (k = k' ∧ n ≤ n') := by
  simp only [preCmp]
  by_cases h1 : k < k' <;> by_cases h2 : k > k' <;> by_cases h3 : n < n' <;> by_cases h4 : n > n' <;>
    simp [h1, h2, h3, h4] <;> omega

theorem preCmp_le_trans (p q r : Option (Nat × Nat)) (h1 : preCmp p q ≠ .gt) (h2 : preCmp q r ≠ .gt) :
    preCmp p r ≠ .gt := by
  rcases p with _ | ⟨k, n⟩ <;> rcases q with _ | ⟨k', n'⟩ <;> rcases r with _ | ⟨k'', n''⟩ <;>
    first
      | (simp only [preCmp_some_ne_gt] at *; omega)
      | simp_all [preCmp]

/-! ## `vcmp` / `vle` -/

theorem vcmp_swap' (a b : Version) : vcmp b a = (vcmp a b).swap := by
  unfold vcmp
  rw [relCmp_swap' a.release b.release, preCmp_swap a.pre b.pre]
  cases relCmp a.release b.release <;> simp [Ordering.swap]

theorem vcmp_ne_gt_iff (a b : Version) :
    vcmp a b ≠ .gt ↔ relCmp a.release b.release = .lt ∨
      (relCmp a.release b.release = .eq ∧ preCmp a.pre b.pre ≠ .gt) := by
  unfold vcmp
  cases relCmp a.release b.release <;> simp

theorem vle_trans' (a b c : Version) (h1 : vle a b = true) (h2 : vle b c = true) : vle a c = true := by
  simp only [vle, bne_iff_ne, vcmp_ne_gt_iff] at *
  rcases h1 with h1 | ⟨h1, p1⟩
  · rcases h2 with h2 | ⟨h2, p2⟩
    · exact Or.inl (relCmp_lt_trans h1 h2)
    · exact Or.inl (by rw [← relCmp_eq_right a.release h2]; exact h1)
  · rcases h2 with h2 | ⟨h2, p2⟩
    · exact Or.inl (by rw [relCmp_eq_left c.release h1]; exact h2)
    · exact Or.inr ⟨by rw [relCmp_eq_left c.release h1]; exact h2, preCmp_le_trans _ _ _ p1 p2⟩

/-! ## Boolean chains vs implications -/

theorem not_or_iff_imp {a b : Prop} : (¬ a ∨ b) ↔ (a → b) := by
  constructor
  · rintro (h | h) ha
    · exact absurd ha h
    · exact h
  · intro h
    rcases Classical.em a with ha | ha
    · exact Or.inr (h ha)
    · exact Or.inl ha

end BV
