/-
  Helper lemmas for C17 (`#include`): directory search, de-duplication, and the invariants of the
  reader `readFile` / `readFile.go`.
-/
import BespokeVerif.Model.Layout
import BespokeVerif.Model.Include
import BespokeVerif.Lemmas.Bits
namespace BV

/-! ## `locate` -/

theorem locateLoop_some (present : String → Bool) (dirs : List String) (x : String) :
    locateLoop present dirs (some x) =
      if dirs.filter present = [] then .ok (some x) else .error .includeError := by
  induction dirs with
  | nil => simp [locateLoop]
  | cons d rest ih =>
    by_cases hd : present d = true
    · simp [locateLoop, hd]
    · simp [locateLoop, hd, ih]

theorem locateLoop_none (present : String → Bool) (dirs : List String) :
    locateLoop present dirs none =
      match dirs.filter present with
      | [] => .ok none
      | [d] => .ok (some d)
      | _ :: _ :: _ => .error .includeError := by
  induction dirs with
  | nil => simp [locateLoop]
  | cons d rest ih =>
    by_cases hd : present d = true
    · simp only [locateLoop, hd, if_true, List.filter_cons_of_pos, locateLoop_some]
      cases hf : rest.filter present with
      | nil => simp
      | cons a t => simp
    · have hd' : present d = false := by simpa using hd
      simp only [locateLoop, hd', List.filter_cons, ih]
      simp

theorem locate_eq_filter (present : String → Bool) (dirs : List String) :
    locate present dirs =
      match dirs.filter present with
      | [d] => .ok d
      | _ => .error .includeError := by
  unfold locate
  rw [locateLoop_none]
  rcases hf : dirs.filter present with _ | ⟨a, _ | ⟨b, t⟩⟩ <;> simp

theorem locate_ok_iff_filter (present : String → Bool) (dirs : List String) (d : String) :
    locate present dirs = .ok d ↔ dirs.filter present = [d] := by
  rw [locate_eq_filter]
  rcases hf : dirs.filter present with _ | ⟨a, _ | ⟨b, t⟩⟩ <;> simp

/-! ## `dedupDirs` -/

theorem dedupDirs_mem' (real : String → String) (dirs : List String) (p : String) :
    p ∈ dedupDirs real dirs ↔ ∃ d ∈ dirs, real d = p := by
  induction dirs with
  | nil => simp [dedupDirs]
  | cons d rest ih =>
    unfold dedupDirs
    split
    · rename_i h
      rw [ih]
      simp only [List.any_eq_true, beq_iff_eq] at h
      obtain ⟨e, he, hre⟩ := h
      constructor
      · rintro ⟨x, hx, hxp⟩; exact ⟨x, List.mem_cons_of_mem _ hx, hxp⟩
      · rintro ⟨x, hx, hxp⟩
        rcases List.mem_cons.1 hx with rfl | hx
        · exact ⟨e, he, hre.trans hxp⟩
        · exact ⟨x, hx, hxp⟩
    · simp only [List.mem_cons, ih]
      constructor
      · rintro (rfl | ⟨x, hx, hxp⟩)
        · exact ⟨d, Or.inl rfl, rfl⟩
        · exact ⟨x, Or.inr hx, hxp⟩
      · rintro ⟨x, rfl | hx, hxp⟩
        · exact Or.inl hxp.symm
        · exact Or.inr ⟨x, hx, hxp⟩

theorem dedupDirs_nodup' (real : String → String) (dirs : List String) : (dedupDirs real dirs).Nodup := by
  induction dirs with
  | nil => simp [dedupDirs]
  | cons d rest ih =>
    unfold dedupDirs
    split
    · exact ih
    · rename_i h
      refine List.nodup_cons.2 ⟨?_, ih⟩
      intro hm
      rw [dedupDirs_mem'] at hm
      obtain ⟨e, he, hre⟩ := hm
      apply h
      simp only [List.any_eq_true, beq_iff_eq]
      exact ⟨e, he, hre⟩

/-! ## invariants of the reader -/

theorem inc_bind_eq_ok {α β} {x : Except Err α} {g : α → Except Err β} {b : β}
    (h : (x >>= g) = .ok b) : ∃ a, x = .ok a ∧ g a = .ok b := by
  cases x with
  | error e => cases h
  | ok a => exact ⟨a, rfl, h⟩

theorem go_inv (cfg : Cfg) (files : List (List Stmt)) (fuel f : Nat)
    (IH : ∀ g st ls st', readFile cfg files fuel g st = .ok (ls, st') →
      (∀ ln ∈ ls, ln.scope.fileId = ln.file ∧ st.used.contains ln.file = false) ∧
      (∀ k, st.used.contains k = true → st'.used.contains k = true)) :
    ∀ (stmts : List Stmt) (sc : Scope) (zone : String) (mute : Nat) (cs : CondStack) (st : ReadSt)
      (acc ls : List Line) (st' : ReadSt), sc.fileId = f →
      readFile.go cfg files fuel f stmts sc zone mute cs st acc = .ok (ls, st') →
      ∃ new, ls = acc ++ new ∧
        (∀ ln ∈ new, ln.scope.fileId = ln.file ∧ (ln.file = f ∨ st.used.contains ln.file = false)) ∧
        (∀ k, st.used.contains k = true → st'.used.contains k = true) := by
  intro stmts
  induction stmts with
  | nil =>
    intro sc zone mute cs st acc ls st' hsc h
    rw [readFile.go.eq_1] at h
    cases h
    exact ⟨[], by simp, by simp, fun _ h => h⟩
  | cons s0 rest ih =>
    intro sc zone mute cs st acc ls st' hsc h
    have step : ∀ (sc' : Scope) (z' : String) (m' : Nat) (cs' : CondStack) (st1 : ReadSt) (l : Line),
        readFile.go cfg files fuel f rest sc' z' m' cs' st1 (acc ++ [l]) = .ok (ls, st') →
        sc'.fileId = f → l.scope = sc' → l.file = f → st1.used = st.used →
        ∃ new, ls = acc ++ new ∧
          (∀ ln ∈ new, ln.scope.fileId = ln.file ∧ (ln.file = f ∨ st.used.contains ln.file = false)) ∧
          (∀ k, st.used.contains k = true → st'.used.contains k = true) := by
      intro sc' z' m' cs' st1 l h5 h1 h2 h3 h4
      obtain ⟨new, hn1, hn2, hn3⟩ := ih sc' z' m' cs' st1 _ ls st' h1 h5
      refine ⟨l :: new, by simp [hn1], ?_, ?_⟩
      · intro ln hln
        rcases List.mem_cons.1 hln with rfl | hln
        · exact ⟨by rw [h2, h1, h3], Or.inl h3⟩
        · rw [← h4]; exact hn2 ln hln
      · rw [← h4]; exact hn3
    rw [readFile.go.eq_def] at h
    simp only [] at h
    split at h
    · -- cond
      obtain ⟨cs', _, h2⟩ := inc_bind_eq_ok h
      exact ih sc zone mute cs' st acc ls st' hsc h2
    · split at h
      · exact ih sc zone mute cs st acc ls st' hsc h
      · split at h
        · cases h
        · split at h
          · -- define
            obtain ⟨syms, _, h2⟩ := inc_bind_eq_ok h
            exact step _ _ _ _ _ _ h2 hsc rfl rfl rfl
          · -- include
            obtain ⟨⟨ls1, st1⟩, hr, h2⟩ := inc_bind_eq_ok h
            simp only [] at h2
            obtain ⟨hI1, hI2⟩ := IH _ _ _ _ hr
            obtain ⟨new, hn1, hn2, hn3⟩ := ih sc zone mute cs st1 _ ls st' hsc h2
            refine ⟨ls1 ++ new, by simp [hn1], ?_, fun k hk => hn3 k (hI2 k hk)⟩
            intro ln hln
            rcases List.mem_append.1 hln with hln | hln
            · exact ⟨(hI1 ln hln).1, Or.inr (hI1 ln hln).2⟩
            · refine ⟨(hn2 ln hln).1, ?_⟩
              rcases (hn2 ln hln).2 with h3 | h3
              · exact Or.inl h3
              · right
                cases hc : st.used.contains ln.file with
                | false => rfl
                | true => rw [hI2 _ hc] at h3; cases h3
          · -- label
            split at h
            · cases h
            · split at h
              · exact step _ _ _ _ _ _ h rfl rfl rfl rfl
              · exact step _ _ _ _ _ _ h hsc rfl rfl rfl
          · -- const
            split at h
            · cases h
            · split at h
              · cases h
              · obtain ⟨L, _, h2⟩ := inc_bind_eq_ok h
                exact step _ _ _ _ _ _ h2 hsc rfl rfl rfl
          · -- org
            split at h
            · cases h
            · exact step _ _ _ _ _ _ h rfl rfl rfl rfl
          · -- memzone
            split at h
            · cases h
            · exact step _ _ _ _ _ _ h rfl rfl rfl rfl
          · -- createZone
            obtain ⟨zs, _, h2⟩ := inc_bind_eq_ok h
            exact step _ _ _ _ _ _ h2 hsc rfl rfl rfl
          · exact step _ _ _ _ _ _ h hsc rfl rfl rfl
          · exact step _ _ _ _ _ _ h hsc rfl rfl rfl
          · exact step _ _ _ _ _ _ h hsc rfl rfl rfl

theorem readFile_inv (cfg : Cfg) (files : List (List Stmt)) :
    ∀ (fuel f : Nat) (st : ReadSt) (ls : List Line) (st' : ReadSt),
      readFile cfg files fuel f st = .ok (ls, st') →
      (∀ ln ∈ ls, ln.scope.fileId = ln.file ∧ st.used.contains ln.file = false) ∧
      (∀ k, st.used.contains k = true → st'.used.contains k = true) ∧ st'.used.contains f = true := by
  intro fuel
  induction fuel with
  | zero => intro f st ls st' h; rw [readFile.eq_1] at h; cases h
  | succ fuel ihf =>
    intro f st ls st' h
    rw [readFile.eq_2] at h
    split at h
    · cases h
    · rename_i hnot
      split at h
      · cases h
      · rename_i stmts hst
        have IH : ∀ g st ls st', readFile cfg files fuel g st = .ok (ls, st') →
            (∀ ln ∈ ls, ln.scope.fileId = ln.file ∧ st.used.contains ln.file = false) ∧
            (∀ k, st.used.contains k = true → st'.used.contains k = true) :=
          fun g st ls st' h => ⟨(ihf g st ls st' h).1, (ihf g st ls st' h).2.1⟩
        obtain ⟨new, hn1, hn2, hn3⟩ := go_inv cfg files fuel f IH stmts _ _ _ _ _ _ ls st' rfl h
        simp only [List.nil_append] at hn1
        subst hn1
        have hnot' : st.used.contains f = false := by simpa using hnot
        have hsub : ∀ k, st.used.contains k = true → (st.used ++ [f]).contains k = true := by
          intro k hk; simp only [List.contains_iff_mem, List.mem_append] at hk ⊢; exact Or.inl hk
        refine ⟨?_, fun k hk => hn3 k (hsub k hk), hn3 f (by simp)⟩
        intro ln hln
        refine ⟨(hn2 ln hln).1, ?_⟩
        rcases (hn2 ln hln).2 with h3 | h3
        · rw [h3]; exact hnot'
        · cases hc : st.used.contains ln.file with
          | false => rfl
          | true => simp only [] at h3; rw [hsub _ hc] at h3; cases h3

/-! ## payload-only bodies -/

def payloadStmt : Stmt → Bool
  | .data .. | .bytes .. | .str .. | .fill .. | .zerountil .. | .instr .. | .comment | .align .. => true
  | _ => false

def payloadLine (f : Nat) (sc : Scope) (zone : String) (mute : Nat) (s : Stmt) : Line :=
  { stmt := s, scope := sc, zone := zone, muted := decide (mute > 0), file := f }

theorem substStmt_payload (t : SymTab) (s s' : Stmt) (hp : payloadStmt s = true)
    (h : substStmt t s = .ok s') : payloadStmt s' = true := by
  cases s <;> simp [payloadStmt] at hp
  case data w vals =>
    obtain ⟨x, _, hx⟩ := inc_bind_eq_ok h
    cases hx; rfl
  case bytes bs => cases h; rfl
  case str r tm => cases h; rfl
  case comment => cases h; rfl
  case fill c v =>
    obtain ⟨x, _, hx⟩ := inc_bind_eq_ok h
    obtain ⟨y, _, hy⟩ := inc_bind_eq_ok hx
    cases hy; rfl
  case zerountil a =>
    obtain ⟨x, _, hx⟩ := inc_bind_eq_ok h
    cases hx; rfl
  case instr o args =>
    obtain ⟨x, _, hx⟩ := inc_bind_eq_ok h
    cases hx; rfl
  case align p =>
    cases p with
    | none => cases h; rfl
    | some p =>
      obtain ⟨x, _, hx⟩ := inc_bind_eq_ok h
      cases hx; rfl

theorem go_payload_ok (cfg : Cfg) (files : List (List Stmt)) (fuel f : Nat) (s s' : Stmt) (rest : List Stmt)
    (sc : Scope) (zone : String) (mute : Nat) (cs : CondStack) (st : ReadSt) (acc : List Line)
    (hp : payloadStmt s = true) (hact : cs.active = true) (hs : substStmt st.syms s = .ok s') :
    readFile.go cfg files fuel f (s :: rest) sc zone mute cs st acc =
      readFile.go cfg files fuel f rest sc zone mute cs st (acc ++ [payloadLine f sc zone mute s']) := by
  have hp' := substStmt_payload _ _ _ hp hs
  rw [readFile.go.eq_def]
  cases s <;> simp [payloadStmt] at hp <;> simp only [hact] <;> rw [hs] <;>
    cases s' <;> simp [payloadStmt] at hp' <;> rfl

theorem go_payload_err (cfg : Cfg) (files : List (List Stmt)) (fuel f : Nat) (s : Stmt) (e : Err) (rest : List Stmt)
    (sc : Scope) (zone : String) (mute : Nat) (cs : CondStack) (st : ReadSt) (acc : List Line)
    (hp : payloadStmt s = true) (hact : cs.active = true) (hs : substStmt st.syms s = .error e) :
    readFile.go cfg files fuel f (s :: rest) sc zone mute cs st acc = .error e := by
  rw [readFile.go.eq_def]
  cases s <;> simp [payloadStmt] at hp <;> simp only [hact] <;> rw [hs] <;> rfl

/-- substitution over a whole payload body, stopping at the first error -/
def substAll (t : SymTab) : List Stmt → Except Err (List Stmt)
  | [] => .ok []
  | s :: rest =>
    match substStmt t s with
    | .error e => .error e
    | .ok s' =>
      match substAll t rest with
      | .error e => .error e
      | .ok ss => .ok (s' :: ss)

theorem go_payload (cfg : Cfg) (files : List (List Stmt)) (fuel f : Nat) (body : List Stmt)
    (sc : Scope) (zone : String) (mute : Nat) (cs : CondStack) (st : ReadSt) (acc : List Line)
    (hp : ∀ s ∈ body, payloadStmt s = true) (hact : cs.active = true) :
    readFile.go cfg files fuel f body sc zone mute cs st acc =
      match substAll st.syms body with
      | .error e => .error e
      | .ok ss => .ok (acc ++ ss.map (payloadLine f sc zone mute), st) := by
  induction body generalizing acc with
  | nil => simp [readFile.go.eq_1, substAll]
  | cons s rest ih =>
    have hps := hp s (by simp)
    have hpr : ∀ s ∈ rest, payloadStmt s = true := fun x hx => hp x (List.mem_cons_of_mem _ hx)
    unfold substAll
    cases hs : substStmt st.syms s with
    | error e => rw [go_payload_err _ _ _ _ _ _ _ _ _ _ _ _ _ hps hact hs]
    | ok s' =>
      rw [go_payload_ok _ _ _ _ _ _ _ _ _ _ _ _ _ hps hact hs, ih _ hpr]
      cases substAll st.syms rest with
      | error e => rfl
      | ok ss => simp
/-! ## the zone table while reading -/

/-- `readFile.go` changes the zone table only by `createZone` -/
theorem go_zones_pred (P : Zones → Prop) (cfg : Cfg)
    (hP : ∀ zs name s e zs', createZone cfg.bits zs name s e = .ok zs' → P zs → P zs')
    (files : List (List Stmt)) (fuel f : Nat)
    (IH : ∀ g st ls st', readFile cfg files fuel g st = .ok (ls, st') → P st.zones → P st'.zones) :
    ∀ (stmts : List Stmt) (sc : Scope) (zone : String) (mute : Nat) (cs : CondStack) (st : ReadSt)
      (acc ls : List Line) (st' : ReadSt),
      readFile.go cfg files fuel f stmts sc zone mute cs st acc = .ok (ls, st') → P st.zones → P st'.zones := by
  intro stmts
  induction stmts with
  | nil =>
    intro sc zone mute cs st acc ls st' h hp
    rw [readFile.go.eq_1] at h
    cases h
    exact hp
  | cons s0 rest ih =>
    intro sc zone mute cs st acc ls st' h hp
    rw [readFile.go.eq_def] at h
    simp only [] at h
    split at h
    · obtain ⟨cs', _, h2⟩ := inc_bind_eq_ok h
      exact ih sc zone mute cs' st acc ls st' h2 hp
    · split at h
      · exact ih sc zone mute cs st acc ls st' h hp
      · split at h
        · cases h
        · split at h
          · -- define
            obtain ⟨syms, _, h2⟩ := inc_bind_eq_ok h
            exact ih _ _ _ _ _ _ ls st' h2 hp
          · -- include
            obtain ⟨⟨ls1, st1⟩, hr, h2⟩ := inc_bind_eq_ok h
            simp only [] at h2
            exact ih _ _ _ _ st1 _ ls st' h2 (IH _ _ _ _ hr hp)
          · -- label
            split at h
            · cases h
            · split at h
              · exact ih _ _ _ _ _ _ ls st' h hp
              · exact ih _ _ _ _ _ _ ls st' h hp
          · -- const
            split at h
            · cases h
            · split at h
              · cases h
              · obtain ⟨L, _, h2⟩ := inc_bind_eq_ok h
                exact ih _ _ _ _ _ _ ls st' h2 hp
          · -- org
            split at h
            · cases h
            · exact ih _ _ _ _ _ _ ls st' h hp
          · -- memzone
            split at h
            · cases h
            · exact ih _ _ _ _ _ _ ls st' h hp
          · -- createZone
            obtain ⟨zs, hz, h2⟩ := inc_bind_eq_ok h
            exact ih _ _ _ _ _ _ ls st' h2 (hP _ _ _ _ _ hz hp)
          · exact ih _ _ _ _ _ _ ls st' h hp
          · exact ih _ _ _ _ _ _ ls st' h hp
          · exact ih _ _ _ _ _ _ ls st' h hp

/-- whatever property of the zone table `createZone` preserves, reading the source preserves -/
theorem readFile_zones_pred (P : Zones → Prop) (cfg : Cfg)
    (hP : ∀ zs name s e zs', createZone cfg.bits zs name s e = .ok zs' → P zs → P zs')
    (files : List (List Stmt)) :
    ∀ (fuel f : Nat) (st : ReadSt) (ls : List Line) (st' : ReadSt),
      readFile cfg files fuel f st = .ok (ls, st') → P st.zones → P st'.zones := by
  intro fuel
  induction fuel with
  | zero => intro f st ls st' h; rw [readFile.eq_1] at h; cases h
  | succ fuel ihf =>
    intro f st ls st' h hp
    rw [readFile.eq_2] at h
    split at h
    · cases h
    · split at h
      · cases h
      · exact go_zones_pred P cfg hP files fuel f ihf _ _ _ _ _ _ _ ls st' h hp

/-! ## the list of opened files while reading -/

/-- `readFile.go` changes the list of opened files only by opening an included file -/
theorem go_used_pred (P : List Nat → Prop) (cfg : Cfg)
    (files : List (List Stmt)) (fuel f : Nat)
    (IH : ∀ g st ls st', readFile cfg files fuel g st = .ok (ls, st') → P st.used → P st'.used) :
    ∀ (stmts : List Stmt) (sc : Scope) (zone : String) (mute : Nat) (cs : CondStack) (st : ReadSt)
      (acc ls : List Line) (st' : ReadSt),
      readFile.go cfg files fuel f stmts sc zone mute cs st acc = .ok (ls, st') → P st.used → P st'.used := by
  intro stmts
  induction stmts with
  | nil =>
    intro sc zone mute cs st acc ls st' h hp
    rw [readFile.go.eq_1] at h
    cases h
    exact hp
  | cons s0 rest ih =>
    intro sc zone mute cs st acc ls st' h hp
    rw [readFile.go.eq_def] at h
    simp only [] at h
    split at h
    · obtain ⟨cs', _, h2⟩ := inc_bind_eq_ok h
      exact ih sc zone mute cs' st acc ls st' h2 hp
    · split at h
      · exact ih sc zone mute cs st acc ls st' h hp
      · split at h
        · cases h
        · split at h
          · -- define
            obtain ⟨syms, _, h2⟩ := inc_bind_eq_ok h
            exact ih _ _ _ _ _ _ ls st' h2 hp
          · -- include
            obtain ⟨⟨ls1, st1⟩, hr, h2⟩ := inc_bind_eq_ok h
            simp only [] at h2
            exact ih _ _ _ _ st1 _ ls st' h2 (IH _ _ _ _ hr hp)
          · -- label
            split at h
            · cases h
            · split at h
              · exact ih _ _ _ _ _ _ ls st' h hp
              · exact ih _ _ _ _ _ _ ls st' h hp
          · -- const
            split at h
            · cases h
            · split at h
              · cases h
              · obtain ⟨L, _, h2⟩ := inc_bind_eq_ok h
                exact ih _ _ _ _ _ _ ls st' h2 hp
          · -- org
            split at h
            · cases h
            · exact ih _ _ _ _ _ _ ls st' h hp
          · -- memzone
            split at h
            · cases h
            · exact ih _ _ _ _ _ _ ls st' h hp
          · -- createZone
            obtain ⟨zs, hz, h2⟩ := inc_bind_eq_ok h
            exact ih _ _ _ _ _ _ ls st' h2 hp
          · exact ih _ _ _ _ _ _ ls st' h hp
          · exact ih _ _ _ _ _ _ ls st' h hp
          · exact ih _ _ _ _ _ _ ls st' h hp


/-- a property of the list of opened files that survives opening one more file that is not in it survives reading -/
theorem readFile_used_pred (P : List Nat → Prop) (cfg : Cfg)
    (hP : ∀ used f, used.contains f = false → P used → P (used ++ [f]))
    (files : List (List Stmt)) :
    ∀ (fuel f : Nat) (st : ReadSt) (ls : List Line) (st' : ReadSt),
      readFile cfg files fuel f st = .ok (ls, st') → P st.used → P st'.used := by
  intro fuel
  induction fuel with
  | zero => intro f st ls st' h; rw [readFile.eq_1] at h; cases h
  | succ fuel ihf =>
    intro f st ls st' h hp
    rw [readFile.eq_2] at h
    split at h
    · cases h
    · rename_i hnot
      split at h
      · cases h
      · exact go_used_pred P cfg files fuel f ihf _ _ _ _ _ _ _ ls st' h (hP _ _ (by simpa using hnot) hp)

/-- no file is opened twice: the list of opened files never holds a file id twice -/
theorem readFile_used_nodup (cfg : Cfg) (files : List (List Stmt)) (fuel f : Nat) (st : ReadSt) (ls : List Line)
    (st' : ReadSt) (h : readFile cfg files fuel f st = .ok (ls, st')) (hn : st.used.Nodup) : st'.used.Nodup := by
  refine readFile_used_pred (fun u => u.Nodup) cfg ?_ files fuel f st ls st' h hn
  intro used g hg hu
  have hg' : g ∉ used := by
    intro hm
    have : used.contains g = true := by simpa using hm
    rw [this] at hg; cases hg
  rw [List.nodup_append]
  refine ⟨hu, by simp, ?_⟩
  intro a ha b hb
  simp only [List.mem_singleton] at hb
  subst hb
  intro hab; subst hab; exact hg' ha

end BV
