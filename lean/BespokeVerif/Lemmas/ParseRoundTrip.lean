/-
  Render / parse round trips for the simplest lines: the text a renderer writes for an origin or a
  one-value data statement with a decimal number is read back by the front end as exactly that statement.
-/
import BespokeVerif.Lemmas.Parse
import BespokeVerif.Lemmas.ExprLex
import BespokeVerif.Lemmas.ExprParse
import BespokeVerif.Lemmas.Split
namespace BV
open LexLemmas SplitLemmas

theorem parseExpr_num (v : Int) : parseExpr [Tok.num v] = .ok (.num v) := by
  have := ParseLemmas.parseExpr_complete (ParseLemmas.ppAt_gram (.num v) 0 (Nat.zero_le _))
  simpa [ppAt] using this

/-- the decimal spelling of a number, read as an expression text, is that number -/
theorem parseExprText_decimal (n : Nat) : parseExprText (Nat.toDigits 10 n) = .ok (.num n) := by
  unfold parseExprText
  rw [lex_decimal n]
  simp only [bind, Except.bind]
  exact parseExpr_num n


theorem startsLabelDef_no_colon (cs : List Char) (h : ∀ c ∈ cs, c ≠ ':') : startsLabelDef cs = false := by
  unfold startsLabelDef
  simp only
  cases hb : (!(List.takeWhile isWordChar (if cs.head? == some '.' then cs.tail else cs)).isEmpty &&
      (List.drop (List.takeWhile isWordChar (if cs.head? == some '.' then cs.tail else cs)).length
        (if cs.head? == some '.' then cs.tail else cs)).head? == some ':') with
  | false => rfl
  | true =>
    exfalso
    simp only [Bool.and_eq_true, beq_iff_eq] at hb
    have hm := List.mem_of_mem_head? hb.2
    have hm2 := List.mem_of_mem_drop hm
    have : (':' : Char) ∈ cs := by
      split at hm2
      · exact List.mem_of_mem_tail hm2
      · exact hm2
    exact h ':' this rfl

theorem cutAtLabelDef_nospace (acc l : List Char) (h : ∀ c ∈ l, isSpaceChar c = false) :
    cutAtLabelDef acc l = (acc.reverse ++ l, []) := by
  induction l generalizing acc with
  | nil => simp [cutAtLabelDef]
  | cons c l ih =>
    rw [cutAtLabelDef]
    simp only [h c (List.mem_cons_self ..), Bool.false_and, Bool.false_eq_true, if_false]
    rw [ih _ (fun x hx => h x (List.mem_cons_of_mem _ hx))]
    simp

/-- digits: word characters, no blanks, no colon, no quote -/
theorem decimal_chars (n : Nat) : ∀ c ∈ Nat.toDigits 10 n, c.isDigit = true := LexLemmas.toDigits_all_dec n

theorem digit_facts (c : Char) (h : c.isDigit = true) : isSpaceChar c = false ∧ c ≠ ':' ∧ c ≠ '"' ∧ isNameChar c = true := by
  have hr : 48 ≤ c.val ∧ c.val ≤ 57 := by simpa [Char.isDigit] using h
  refine ⟨?_, ?_, ?_, ?_⟩
  · cases hs : isSpaceChar c with
    | false => rfl
    | true =>
      simp only [isSpaceChar, Bool.or_eq_true, beq_iff_eq] at hs
      rcases hs with rfl | rfl <;> simp [Char.isDigit] at h
  · rintro rfl; simp [Char.isDigit] at h
  · rintro rfl; simp [Char.isDigit] at h
  · simp [isNameChar, isWordChar, Char.isAlphanum, h]


/-- round trip of the simplest origin line: `.org` followed by the decimal spelling of an address is
    read back as the origin statement with exactly that address -/
theorem parseStmts_org_decimal (cfg : PCfg) (f : Nat) (n : Nat) :
    parseStmts cfg (f + 2) (".org ".toList ++ Nat.toDigits 10 n) = .ok [.org (.num n) none] := by
  have hds := decimal_chars n
  have hne : Nat.toDigits 10 n ≠ [] := Nat.toDigits_ne_nil
  generalize hD : Nat.toDigits 10 n = ds at hds hne
  have hpe : parseExprText ds = .ok (.num n) := by rw [← hD]; exact parseExprText_decimal n
  obtain ⟨dl, hdl⟩ : ∃ dl, ds.getLast? = some dl := by
    cases h : ds.getLast? with
    | none => simp at h; contradiction
    | some dl => exact ⟨dl, rfl⟩
  have hdlf := digit_facts dl (hds dl (List.mem_of_getLast? hdl))
  have hnosp : ∀ c ∈ ds, isSpaceChar c = false := fun c hc => (digit_facts c (hds c hc)).1
  have ht : ptrim (".org ".toList ++ ds) = ".org ".toList ++ ds := by
    unfold ptrim
    have h1 : ptrimL (".org ".toList ++ ds) = ".org ".toList ++ ds := by
      show ptrimL ('.' :: ('o' :: 'r' :: 'g' :: ' ' :: ds)) = _
      exact ptrimL_cons_nonspace _ _ (by decide)
    rw [h1]
    have hl' : (".org ".toList ++ ds).getLast? = some dl := by
      rw [List.getLast?_append, hdl]; rfl
    have := ptrimR_append_last (".org ".toList ++ ds) [] dl hl' hdlf.1
    simpa [ptrimR_nil] using this
  have hn : takeName (".org".toList ++ ' ' :: ds) = (".org".toList, ' ' :: ds) :=
    takeName_name _ _ (by decide) (by intro c hc; simp at hc; subst hc; decide)
  have hcut : cutAtLabelDef [] (' ' :: ds) = (' ' :: ds, []) := by
    rw [cutAtLabelDef]
    have hns : startsLabelDef (ptrimL ds) = false := by
      apply startsLabelDef_no_colon
      intro c hc
      have hc' : c ∈ ds := by
        unfold ptrimL at hc; exact (List.dropWhile_sublist _).subset hc
      exact (digit_facts c (hds c hc')).2.1
    simp only [hns, Bool.and_false, Bool.false_eq_true, if_false]
    rw [cutAtLabelDef_nospace _ _ hnosp]
    simp
  have hown : ptrim (' ' :: ds) = ds := by
    obtain _ | ⟨d0, ds'⟩ := ds
    · contradiction
    have h0 : isSpaceChar d0 = false := hnosp d0 (List.mem_cons_self ..)
    unfold ptrim
    have : ptrimL (' ' :: d0 :: ds') = d0 :: ds' := by
      simp [ptrimL, h0, show isSpaceChar ' ' = true by decide]
    rw [this]
    have := ptrimR_append_last (d0 :: ds') [] dl hdl hdlf.1
    simpa [ptrimR_nil] using this
  have hlow : lowerS ".org".toList = ".org" := by rw [lowerS_eq]; decide
  rw [parseStmts]
  simp only [ht]
  have e1 : ".org ".toList ++ ds = '.' :: ("org".toList ++ ' ' :: ds) := by simp
  have hn' : takeName ('.' :: ("org".toList ++ ' ' :: ds)) = (".org".toList, ' ' :: ds) := by
    have : '.' :: ("org".toList ++ ' ' :: ds) = ".org".toList ++ ' ' :: ds := by simp
    rw [this]; exact hn
  rw [e1]
  simp only [hn', hlow]
  simp only [hcut, hown]
  rw [hdl]
  simp [hdlf.2.2.1, hpe, parseStmts, ptrim, ptrimL, ptrimR]
  rfl


theorem splitCommasAux_plain (cur l : List Char) (h : ∀ c ∈ l, c ≠ ',' ∧ c ≠ '\'') :
    splitCommasAux cur l = [cur.reverse ++ l] := by
  induction l generalizing cur with
  | nil => simp [aux_nil]
  | cons c l ih =>
    have hc := h c (List.mem_cons_self ..)
    rw [aux_other cur c l hc.1 hc.2, ih _ (fun x hx => h x (List.mem_cons_of_mem _ hx))]
    simp

/-- round trip of the simplest data line: `.byte` followed by the decimal spelling of a value -/
theorem parseStmts_byte_decimal (cfg : PCfg) (f : Nat) (n : Nat) :
    parseStmts cfg (f + 2) (".byte ".toList ++ Nat.toDigits 10 n) = .ok [.data 1 [.num n]] := by
  have hds := decimal_chars n
  have hne : Nat.toDigits 10 n ≠ [] := Nat.toDigits_ne_nil
  generalize hD : Nat.toDigits 10 n = ds at hds hne
  have hpe : parseExprText ds = .ok (.num n) := by rw [← hD]; exact parseExprText_decimal n
  obtain ⟨dl, hdl⟩ : ∃ dl, ds.getLast? = some dl := by
    cases h : ds.getLast? with
    | none => simp at h; contradiction
    | some dl => exact ⟨dl, rfl⟩
  have hdlf := digit_facts dl (hds dl (List.mem_of_getLast? hdl))
  have hnosp : ∀ c ∈ ds, isSpaceChar c = false := fun c hc => (digit_facts c (hds c hc)).1
  obtain _ | ⟨d0, ds'⟩ := ds
  · contradiction
  have hd0 := hds d0 (List.mem_cons_self ..)
  have h0 : isSpaceChar d0 = false := hnosp d0 (List.mem_cons_self ..)
  have hq0 : isQuote d0 = false := by
    cases hq : isQuote d0 with
    | false => rfl
    | true =>
      simp only [isQuote, Bool.or_eq_true, beq_iff_eq] at hq
      rcases hq with rfl | rfl <;> simp [Char.isDigit] at hd0
  have ht : ptrim (".byte ".toList ++ d0 :: ds') = ".byte ".toList ++ d0 :: ds' := by
    unfold ptrim
    have h1 : ptrimL (".byte ".toList ++ d0 :: ds') = ".byte ".toList ++ d0 :: ds' := by
      show ptrimL ('.' :: ('b' :: 'y' :: 't' :: 'e' :: ' ' :: d0 :: ds')) = _
      exact ptrimL_cons_nonspace _ _ (by decide)
    rw [h1]
    have hl' : (".byte ".toList ++ d0 :: ds').getLast? = some dl := by
      rw [List.getLast?_append, hdl]; rfl
    have := ptrimR_append_last (".byte ".toList ++ d0 :: ds') [] dl hl' hdlf.1
    simpa [ptrimR_nil] using this
  have hn' : takeName ('.' :: ("byte".toList ++ ' ' :: d0 :: ds')) = (".byte".toList, ' ' :: d0 :: ds') := by
    have : '.' :: ("byte".toList ++ ' ' :: d0 :: ds') = ".byte".toList ++ ' ' :: d0 :: ds' := by simp
    rw [this]
    exact takeName_name _ _ (by decide) (by intro c hc; simp at hc; subst hc; decide)
  have hlow : lowerS ".byte".toList = ".byte" := by rw [lowerS_eq]; decide
  have hown : ptrim (' ' :: d0 :: ds') = d0 :: ds' := by
    unfold ptrim
    have : ptrimL (' ' :: d0 :: ds') = d0 :: ds' := by
      simp [ptrimL, h0, show isSpaceChar ' ' = true by decide]
    rw [this]
    have := ptrimR_append_last (d0 :: ds') [] dl hdl hdlf.1
    simpa [ptrimR_nil] using this
  have hsplit : splitCommas (d0 :: ds') = [d0 :: ds'] := by
    unfold splitCommas
    rw [splitCommasAux_plain [] _ (fun c hc => by
      have hcd := hds c hc
      constructor <;> (rintro rfl; simp [Char.isDigit] at hcd))]
    simp
  have hpd : parseData cfg 1 none (' ' :: d0 :: ds') = .ok (.data 1 [.num n], []) := by
    unfold parseData
    have hpl : ptrimL (' ' :: d0 :: ds') = d0 :: ds' := by
      simp [ptrimL, h0, show isSpaceChar ' ' = true by decide]
    simp only [hpl, hq0, Bool.false_eq_true, if_false, Option.isSome_none]
    have hpt : ptrim (d0 :: ds') = d0 :: ds' := by
      unfold ptrim
      rw [ptrimL_cons_nonspace _ _ h0]
      have := ptrimR_append_last (d0 :: ds') [] dl hdl hdlf.1
      simpa [ptrimR_nil] using this
    rw [hpt, hsplit]
    have hne' : (ptrim (d0 :: ds')).isEmpty = false := by rw [hpt]; rfl
    simp [hpt, hpe, List.filter]
    rfl
  rw [parseStmts]
  simp only [ht]
  have e1 : ".byte ".toList ++ d0 :: ds' = '.' :: ("byte".toList ++ ' ' :: d0 :: ds') := by simp
  rw [e1]
  simp only [hn', hlow]
  simp [hpd, parseStmts, ptrim, ptrimL, ptrimR]
  rfl

theorem parseStmts_zero_decimal (cfg : PCfg) (f : Nat) (n : Nat) :
    parseStmts cfg (f + 2) (".zero ".toList ++ Nat.toDigits 10 n) = .ok [.fill (.num n) (.num 0)] := by
  have hds := decimal_chars n
  have hne : Nat.toDigits 10 n ≠ [] := Nat.toDigits_ne_nil
  generalize hD : Nat.toDigits 10 n = ds at hds hne
  have hpe : parseExprText ds = .ok (.num n) := by rw [← hD]; exact parseExprText_decimal n
  obtain ⟨dl, hdl⟩ : ∃ dl, ds.getLast? = some dl := by
    cases h : ds.getLast? with
    | none => simp at h; contradiction
    | some dl => exact ⟨dl, rfl⟩
  have hdlf := digit_facts dl (hds dl (List.mem_of_getLast? hdl))
  have hnosp : ∀ c ∈ ds, isSpaceChar c = false := fun c hc => (digit_facts c (hds c hc)).1
  have ht : ptrim (".zero ".toList ++ ds) = ".zero ".toList ++ ds := by
    unfold ptrim
    have h1 : ptrimL (".zero ".toList ++ ds) = ".zero ".toList ++ ds := by
      show ptrimL ('.' :: ('z' :: 'e' :: 'r' :: 'o' :: ' ' :: ds)) = _
      exact ptrimL_cons_nonspace _ _ (by decide)
    rw [h1]
    have hl' : (".zero ".toList ++ ds).getLast? = some dl := by
      rw [List.getLast?_append, hdl]; rfl
    have := ptrimR_append_last (".zero ".toList ++ ds) [] dl hl' hdlf.1
    simpa [ptrimR_nil] using this
  have hn : takeName (".zero".toList ++ ' ' :: ds) = (".zero".toList, ' ' :: ds) :=
    takeName_name _ _ (by decide) (by intro c hc; simp at hc; subst hc; decide)
  have hcut : cutAtLabelDef [] (' ' :: ds) = (' ' :: ds, []) := by
    rw [cutAtLabelDef]
    have hns : startsLabelDef (ptrimL ds) = false := by
      apply startsLabelDef_no_colon
      intro c hc
      have hc' : c ∈ ds := by
        unfold ptrimL at hc; exact (List.dropWhile_sublist _).subset hc
      exact (digit_facts c (hds c hc')).2.1
    simp only [hns, Bool.and_false, Bool.false_eq_true, if_false]
    rw [cutAtLabelDef_nospace _ _ hnosp]
    simp
  have hown : ptrim (' ' :: ds) = ds := by
    obtain _ | ⟨d0, ds'⟩ := ds
    · contradiction
    have h0 : isSpaceChar d0 = false := hnosp d0 (List.mem_cons_self ..)
    unfold ptrim
    have : ptrimL (' ' :: d0 :: ds') = d0 :: ds' := by
      simp [ptrimL, h0, show isSpaceChar ' ' = true by decide]
    rw [this]
    have := ptrimR_append_last (d0 :: ds') [] dl hdl hdlf.1
    simpa [ptrimR_nil] using this
  have hlow : lowerS ".zero".toList = ".zero" := by rw [lowerS_eq]; decide
  rw [parseStmts]
  simp only [ht]
  have e1 : ".zero ".toList ++ ds = '.' :: ("zero".toList ++ ' ' :: ds) := by simp
  have hn' : takeName ('.' :: ("zero".toList ++ ' ' :: ds)) = (".zero".toList, ' ' :: ds) := by
    have : '.' :: ("zero".toList ++ ' ' :: ds) = ".zero".toList ++ ' ' :: ds := by simp
    rw [this]; exact hn
  rw [e1]
  simp only [hn', hlow]
  simp only [hcut, hown]
  simp [hpe, parseStmts, ptrim, ptrimL, ptrimR]
  rfl



theorem parseStmts_zerountil_decimal (cfg : PCfg) (f : Nat) (n : Nat) :
    parseStmts cfg (f + 2) (".zerountil ".toList ++ Nat.toDigits 10 n) = .ok [.zerountil (.num n)] := by
  have hds := decimal_chars n
  have hne : Nat.toDigits 10 n ≠ [] := Nat.toDigits_ne_nil
  generalize hD : Nat.toDigits 10 n = ds at hds hne
  have hpe : parseExprText ds = .ok (.num n) := by rw [← hD]; exact parseExprText_decimal n
  obtain ⟨dl, hdl⟩ : ∃ dl, ds.getLast? = some dl := by
    cases h : ds.getLast? with
    | none => simp at h; contradiction
    | some dl => exact ⟨dl, rfl⟩
  have hdlf := digit_facts dl (hds dl (List.mem_of_getLast? hdl))
  have hnosp : ∀ c ∈ ds, isSpaceChar c = false := fun c hc => (digit_facts c (hds c hc)).1
  have ht : ptrim (".zerountil ".toList ++ ds) = ".zerountil ".toList ++ ds := by
    unfold ptrim
    have h1 : ptrimL (".zerountil ".toList ++ ds) = ".zerountil ".toList ++ ds := by
      show ptrimL ('.' :: ('z' :: 'e' :: 'r' :: 'o' :: 'u' :: 'n' :: 't' :: 'i' :: 'l' :: ' ' :: ds)) = _
      exact ptrimL_cons_nonspace _ _ (by decide)
    rw [h1]
    have hl' : (".zerountil ".toList ++ ds).getLast? = some dl := by
      rw [List.getLast?_append, hdl]; rfl
    have := ptrimR_append_last (".zerountil ".toList ++ ds) [] dl hl' hdlf.1
    simpa [ptrimR_nil] using this
  have hn : takeName (".zerountil".toList ++ ' ' :: ds) = (".zerountil".toList, ' ' :: ds) :=
    takeName_name _ _ (by decide) (by intro c hc; simp at hc; subst hc; decide)
  have hcut : cutAtLabelDef [] (' ' :: ds) = (' ' :: ds, []) := by
    rw [cutAtLabelDef]
    have hns : startsLabelDef (ptrimL ds) = false := by
      apply startsLabelDef_no_colon
      intro c hc
      have hc' : c ∈ ds := by
        unfold ptrimL at hc; exact (List.dropWhile_sublist _).subset hc
      exact (digit_facts c (hds c hc')).2.1
    simp only [hns, Bool.and_false, Bool.false_eq_true, if_false]
    rw [cutAtLabelDef_nospace _ _ hnosp]
    simp
  have hown : ptrim (' ' :: ds) = ds := by
    obtain _ | ⟨d0, ds'⟩ := ds
    · contradiction
    have h0 : isSpaceChar d0 = false := hnosp d0 (List.mem_cons_self ..)
    unfold ptrim
    have : ptrimL (' ' :: d0 :: ds') = d0 :: ds' := by
      simp [ptrimL, h0, show isSpaceChar ' ' = true by decide]
    rw [this]
    have := ptrimR_append_last (d0 :: ds') [] dl hdl hdlf.1
    simpa [ptrimR_nil] using this
  have hlow : lowerS ".zerountil".toList = ".zerountil" := by rw [lowerS_eq]; decide
  rw [parseStmts]
  simp only [ht]
  have e1 : ".zerountil ".toList ++ ds = '.' :: ("zerountil".toList ++ ' ' :: ds) := by simp
  have hn' : takeName ('.' :: ("zerountil".toList ++ ' ' :: ds)) = (".zerountil".toList, ' ' :: ds) := by
    have : '.' :: ("zerountil".toList ++ ' ' :: ds) = ".zerountil".toList ++ ' ' :: ds := by simp
    rw [this]; exact hn
  rw [e1]
  simp only [hn', hlow]
  simp only [hcut, hown]
  simp [hpe, parseStmts, ptrim, ptrimL, ptrimR]
  rfl

theorem parseStmts_align_decimal (cfg : PCfg) (f : Nat) (n : Nat) :
    parseStmts cfg (f + 2) (".align ".toList ++ Nat.toDigits 10 n) = .ok [.align (some (.num n))] := by
  have hds := decimal_chars n
  have hne : Nat.toDigits 10 n ≠ [] := Nat.toDigits_ne_nil
  generalize hD : Nat.toDigits 10 n = ds at hds hne
  have hpe : parseExprText ds = .ok (.num n) := by rw [← hD]; exact parseExprText_decimal n
  obtain ⟨dl, hdl⟩ : ∃ dl, ds.getLast? = some dl := by
    cases h : ds.getLast? with
    | none => simp at h; contradiction
    | some dl => exact ⟨dl, rfl⟩
  have hdlf := digit_facts dl (hds dl (List.mem_of_getLast? hdl))
  have hnosp : ∀ c ∈ ds, isSpaceChar c = false := fun c hc => (digit_facts c (hds c hc)).1
  have ht : ptrim (".align ".toList ++ ds) = ".align ".toList ++ ds := by
    unfold ptrim
    have h1 : ptrimL (".align ".toList ++ ds) = ".align ".toList ++ ds := by
      show ptrimL ('.' :: ('a' :: 'l' :: 'i' :: 'g' :: 'n' :: ' ' :: ds)) = _
      exact ptrimL_cons_nonspace _ _ (by decide)
    rw [h1]
    have hl' : (".align ".toList ++ ds).getLast? = some dl := by
      rw [List.getLast?_append, hdl]; rfl
    have := ptrimR_append_last (".align ".toList ++ ds) [] dl hl' hdlf.1
    simpa [ptrimR_nil] using this
  have hn : takeName (".align".toList ++ ' ' :: ds) = (".align".toList, ' ' :: ds) :=
    takeName_name _ _ (by decide) (by intro c hc; simp at hc; subst hc; decide)
  have hcut : cutAtLabelDef [] (' ' :: ds) = (' ' :: ds, []) := by
    rw [cutAtLabelDef]
    have hns : startsLabelDef (ptrimL ds) = false := by
      apply startsLabelDef_no_colon
      intro c hc
      have hc' : c ∈ ds := by
        unfold ptrimL at hc; exact (List.dropWhile_sublist _).subset hc
      exact (digit_facts c (hds c hc')).2.1
    simp only [hns, Bool.and_false, Bool.false_eq_true, if_false]
    rw [cutAtLabelDef_nospace _ _ hnosp]
    simp
  have hown : ptrim (' ' :: ds) = ds := by
    obtain _ | ⟨d0, ds'⟩ := ds
    · contradiction
    have h0 : isSpaceChar d0 = false := hnosp d0 (List.mem_cons_self ..)
    unfold ptrim
    have : ptrimL (' ' :: d0 :: ds') = d0 :: ds' := by
      simp [ptrimL, h0, show isSpaceChar ' ' = true by decide]
    rw [this]
    have := ptrimR_append_last (d0 :: ds') [] dl hdl hdlf.1
    simpa [ptrimR_nil] using this
  have hlow : lowerS ".align".toList = ".align" := by rw [lowerS_eq]; decide
  rw [parseStmts]
  simp only [ht]
  have e1 : ".align ".toList ++ ds = '.' :: ("align".toList ++ ' ' :: ds) := by simp
  have hn' : takeName ('.' :: ("align".toList ++ ' ' :: ds)) = (".align".toList, ' ' :: ds) := by
    have : '.' :: ("align".toList ++ ' ' :: ds) = ".align".toList ++ ' ' :: ds := by simp
    rw [this]; exact hn
  rw [e1]
  simp only [hn', hlow]
  have hne2 : ds.isEmpty = false := by cases ds <;> simp_all
  simp only [hown, hne2]
  simp only [hcut, hown, hne2]
  simp [hpe, parseStmts, ptrim, ptrimL, ptrimR]
  rfl

/-- round trip of the simplest data line: `.2byte` followed by the decimal spelling of a value -/
theorem parseStmts_2byte_decimal (cfg : PCfg) (f : Nat) (n : Nat) :
    parseStmts cfg (f + 2) (".2byte ".toList ++ Nat.toDigits 10 n) = .ok [.data 2 [.num n]] := by
  have hds := decimal_chars n
  have hne : Nat.toDigits 10 n ≠ [] := Nat.toDigits_ne_nil
  generalize hD : Nat.toDigits 10 n = ds at hds hne
  have hpe : parseExprText ds = .ok (.num n) := by rw [← hD]; exact parseExprText_decimal n
  obtain ⟨dl, hdl⟩ : ∃ dl, ds.getLast? = some dl := by
    cases h : ds.getLast? with
    | none => simp at h; contradiction
    | some dl => exact ⟨dl, rfl⟩
  have hdlf := digit_facts dl (hds dl (List.mem_of_getLast? hdl))
  have hnosp : ∀ c ∈ ds, isSpaceChar c = false := fun c hc => (digit_facts c (hds c hc)).1
  obtain _ | ⟨d0, ds'⟩ := ds
  · contradiction
  have hd0 := hds d0 (List.mem_cons_self ..)
  have h0 : isSpaceChar d0 = false := hnosp d0 (List.mem_cons_self ..)
  have hq0 : isQuote d0 = false := by
    cases hq : isQuote d0 with
    | false => rfl
    | true =>
      simp only [isQuote, Bool.or_eq_true, beq_iff_eq] at hq
      rcases hq with rfl | rfl <;> simp [Char.isDigit] at hd0
  have ht : ptrim (".2byte ".toList ++ d0 :: ds') = ".2byte ".toList ++ d0 :: ds' := by
    unfold ptrim
    have h1 : ptrimL (".2byte ".toList ++ d0 :: ds') = ".2byte ".toList ++ d0 :: ds' := by
      show ptrimL ('.' :: ('2' :: 'b' :: 'y' :: 't' :: 'e' :: ' ' :: d0 :: ds')) = _
      exact ptrimL_cons_nonspace _ _ (by decide)
    rw [h1]
    have hl' : (".2byte ".toList ++ d0 :: ds').getLast? = some dl := by
      rw [List.getLast?_append, hdl]; rfl
    have := ptrimR_append_last (".2byte ".toList ++ d0 :: ds') [] dl hl' hdlf.1
    simpa [ptrimR_nil] using this
  have hn' : takeName ('.' :: ("2byte".toList ++ ' ' :: d0 :: ds')) = (".2byte".toList, ' ' :: d0 :: ds') := by
    have : '.' :: ("2byte".toList ++ ' ' :: d0 :: ds') = ".2byte".toList ++ ' ' :: d0 :: ds' := by simp
    rw [this]
    exact takeName_name _ _ (by decide) (by intro c hc; simp at hc; subst hc; decide)
  have hlow : lowerS ".2byte".toList = ".2byte" := by rw [lowerS_eq]; decide
  have hown : ptrim (' ' :: d0 :: ds') = d0 :: ds' := by
    unfold ptrim
    have : ptrimL (' ' :: d0 :: ds') = d0 :: ds' := by
      simp [ptrimL, h0, show isSpaceChar ' ' = true by decide]
    rw [this]
    have := ptrimR_append_last (d0 :: ds') [] dl hdl hdlf.1
    simpa [ptrimR_nil] using this
  have hsplit : splitCommas (d0 :: ds') = [d0 :: ds'] := by
    unfold splitCommas
    rw [splitCommasAux_plain [] _ (fun c hc => by
      have hcd := hds c hc
      constructor <;> (rintro rfl; simp [Char.isDigit] at hcd))]
    simp
  have hpd : parseData cfg 2 none (' ' :: d0 :: ds') = .ok (.data 2 [.num n], []) := by
    unfold parseData
    have hpl : ptrimL (' ' :: d0 :: ds') = d0 :: ds' := by
      simp [ptrimL, h0, show isSpaceChar ' ' = true by decide]
    simp only [hpl, hq0, Bool.false_eq_true, if_false, Option.isSome_none]
    have hpt : ptrim (d0 :: ds') = d0 :: ds' := by
      unfold ptrim
      rw [ptrimL_cons_nonspace _ _ h0]
      have := ptrimR_append_last (d0 :: ds') [] dl hdl hdlf.1
      simpa [ptrimR_nil] using this
    rw [hpt, hsplit]
    have hne' : (ptrim (d0 :: ds')).isEmpty = false := by rw [hpt]; rfl
    simp [hpt, hpe, List.filter]
    rfl
  rw [parseStmts]
  simp only [ht]
  have e1 : ".2byte ".toList ++ d0 :: ds' = '.' :: ("2byte".toList ++ ' ' :: d0 :: ds') := by simp
  rw [e1]
  simp only [hn', hlow]
  simp [hpd, parseStmts, ptrim, ptrimL, ptrimR]
  rfl


/-- round trip of the simplest data line: `.4byte` followed by the decimal spelling of a value -/
theorem parseStmts_4byte_decimal (cfg : PCfg) (f : Nat) (n : Nat) :
    parseStmts cfg (f + 2) (".4byte ".toList ++ Nat.toDigits 10 n) = .ok [.data 4 [.num n]] := by
  have hds := decimal_chars n
  have hne : Nat.toDigits 10 n ≠ [] := Nat.toDigits_ne_nil
  generalize hD : Nat.toDigits 10 n = ds at hds hne
  have hpe : parseExprText ds = .ok (.num n) := by rw [← hD]; exact parseExprText_decimal n
  obtain ⟨dl, hdl⟩ : ∃ dl, ds.getLast? = some dl := by
    cases h : ds.getLast? with
    | none => simp at h; contradiction
    | some dl => exact ⟨dl, rfl⟩
  have hdlf := digit_facts dl (hds dl (List.mem_of_getLast? hdl))
  have hnosp : ∀ c ∈ ds, isSpaceChar c = false := fun c hc => (digit_facts c (hds c hc)).1
  obtain _ | ⟨d0, ds'⟩ := ds
  · contradiction
  have hd0 := hds d0 (List.mem_cons_self ..)
  have h0 : isSpaceChar d0 = false := hnosp d0 (List.mem_cons_self ..)
  have hq0 : isQuote d0 = false := by
    cases hq : isQuote d0 with
    | false => rfl
    | true =>
      simp only [isQuote, Bool.or_eq_true, beq_iff_eq] at hq
      rcases hq with rfl | rfl <;> simp [Char.isDigit] at hd0
  have ht : ptrim (".4byte ".toList ++ d0 :: ds') = ".4byte ".toList ++ d0 :: ds' := by
    unfold ptrim
    have h1 : ptrimL (".4byte ".toList ++ d0 :: ds') = ".4byte ".toList ++ d0 :: ds' := by
      show ptrimL ('.' :: ('4' :: 'b' :: 'y' :: 't' :: 'e' :: ' ' :: d0 :: ds')) = _
      exact ptrimL_cons_nonspace _ _ (by decide)
    rw [h1]
    have hl' : (".4byte ".toList ++ d0 :: ds').getLast? = some dl := by
      rw [List.getLast?_append, hdl]; rfl
    have := ptrimR_append_last (".4byte ".toList ++ d0 :: ds') [] dl hl' hdlf.1
    simpa [ptrimR_nil] using this
  have hn' : takeName ('.' :: ("4byte".toList ++ ' ' :: d0 :: ds')) = (".4byte".toList, ' ' :: d0 :: ds') := by
    have : '.' :: ("4byte".toList ++ ' ' :: d0 :: ds') = ".4byte".toList ++ ' ' :: d0 :: ds' := by simp
    rw [this]
    exact takeName_name _ _ (by decide) (by intro c hc; simp at hc; subst hc; decide)
  have hlow : lowerS ".4byte".toList = ".4byte" := by rw [lowerS_eq]; decide
  have hown : ptrim (' ' :: d0 :: ds') = d0 :: ds' := by
    unfold ptrim
    have : ptrimL (' ' :: d0 :: ds') = d0 :: ds' := by
      simp [ptrimL, h0, show isSpaceChar ' ' = true by decide]
    rw [this]
    have := ptrimR_append_last (d0 :: ds') [] dl hdl hdlf.1
    simpa [ptrimR_nil] using this
  have hsplit : splitCommas (d0 :: ds') = [d0 :: ds'] := by
    unfold splitCommas
    rw [splitCommasAux_plain [] _ (fun c hc => by
      have hcd := hds c hc
      constructor <;> (rintro rfl; simp [Char.isDigit] at hcd))]
    simp
  have hpd : parseData cfg 4 none (' ' :: d0 :: ds') = .ok (.data 4 [.num n], []) := by
    unfold parseData
    have hpl : ptrimL (' ' :: d0 :: ds') = d0 :: ds' := by
      simp [ptrimL, h0, show isSpaceChar ' ' = true by decide]
    simp only [hpl, hq0, Bool.false_eq_true, if_false, Option.isSome_none]
    have hpt : ptrim (d0 :: ds') = d0 :: ds' := by
      unfold ptrim
      rw [ptrimL_cons_nonspace _ _ h0]
      have := ptrimR_append_last (d0 :: ds') [] dl hdl hdlf.1
      simpa [ptrimR_nil] using this
    rw [hpt, hsplit]
    have hne' : (ptrim (d0 :: ds')).isEmpty = false := by rw [hpt]; rfl
    simp [hpt, hpe, List.filter]
    rfl
  rw [parseStmts]
  simp only [ht]
  have e1 : ".4byte ".toList ++ d0 :: ds' = '.' :: ("4byte".toList ++ ' ' :: d0 :: ds') := by simp
  rw [e1]
  simp only [hn', hlow]
  simp [hpd, parseStmts, ptrim, ptrimL, ptrimR]
  rfl


/-- round trip of the simplest data line: `.8byte` followed by the decimal spelling of a value -/
theorem parseStmts_8byte_decimal (cfg : PCfg) (f : Nat) (n : Nat) :
    parseStmts cfg (f + 2) (".8byte ".toList ++ Nat.toDigits 10 n) = .ok [.data 8 [.num n]] := by
  have hds := decimal_chars n
  have hne : Nat.toDigits 10 n ≠ [] := Nat.toDigits_ne_nil
  generalize hD : Nat.toDigits 10 n = ds at hds hne
  have hpe : parseExprText ds = .ok (.num n) := by rw [← hD]; exact parseExprText_decimal n
  obtain ⟨dl, hdl⟩ : ∃ dl, ds.getLast? = some dl := by
    cases h : ds.getLast? with
    | none => simp at h; contradiction
    | some dl => exact ⟨dl, rfl⟩
  have hdlf := digit_facts dl (hds dl (List.mem_of_getLast? hdl))
  have hnosp : ∀ c ∈ ds, isSpaceChar c = false := fun c hc => (digit_facts c (hds c hc)).1
  obtain _ | ⟨d0, ds'⟩ := ds
  · contradiction
  have hd0 := hds d0 (List.mem_cons_self ..)
  have h0 : isSpaceChar d0 = false := hnosp d0 (List.mem_cons_self ..)
  have hq0 : isQuote d0 = false := by
    cases hq : isQuote d0 with
    | false => rfl
    | true =>
      simp only [isQuote, Bool.or_eq_true, beq_iff_eq] at hq
      rcases hq with rfl | rfl <;> simp [Char.isDigit] at hd0
  have ht : ptrim (".8byte ".toList ++ d0 :: ds') = ".8byte ".toList ++ d0 :: ds' := by
    unfold ptrim
    have h1 : ptrimL (".8byte ".toList ++ d0 :: ds') = ".8byte ".toList ++ d0 :: ds' := by
      show ptrimL ('.' :: ('8' :: 'b' :: 'y' :: 't' :: 'e' :: ' ' :: d0 :: ds')) = _
      exact ptrimL_cons_nonspace _ _ (by decide)
    rw [h1]
    have hl' : (".8byte ".toList ++ d0 :: ds').getLast? = some dl := by
      rw [List.getLast?_append, hdl]; rfl
    have := ptrimR_append_last (".8byte ".toList ++ d0 :: ds') [] dl hl' hdlf.1
    simpa [ptrimR_nil] using this
  have hn' : takeName ('.' :: ("8byte".toList ++ ' ' :: d0 :: ds')) = (".8byte".toList, ' ' :: d0 :: ds') := by
    have : '.' :: ("8byte".toList ++ ' ' :: d0 :: ds') = ".8byte".toList ++ ' ' :: d0 :: ds' := by simp
    rw [this]
    exact takeName_name _ _ (by decide) (by intro c hc; simp at hc; subst hc; decide)
  have hlow : lowerS ".8byte".toList = ".8byte" := by rw [lowerS_eq]; decide
  have hown : ptrim (' ' :: d0 :: ds') = d0 :: ds' := by
    unfold ptrim
    have : ptrimL (' ' :: d0 :: ds') = d0 :: ds' := by
      simp [ptrimL, h0, show isSpaceChar ' ' = true by decide]
    rw [this]
    have := ptrimR_append_last (d0 :: ds') [] dl hdl hdlf.1
    simpa [ptrimR_nil] using this
  have hsplit : splitCommas (d0 :: ds') = [d0 :: ds'] := by
    unfold splitCommas
    rw [splitCommasAux_plain [] _ (fun c hc => by
      have hcd := hds c hc
      constructor <;> (rintro rfl; simp [Char.isDigit] at hcd))]
    simp
  have hpd : parseData cfg 8 none (' ' :: d0 :: ds') = .ok (.data 8 [.num n], []) := by
    unfold parseData
    have hpl : ptrimL (' ' :: d0 :: ds') = d0 :: ds' := by
      simp [ptrimL, h0, show isSpaceChar ' ' = true by decide]
    simp only [hpl, hq0, Bool.false_eq_true, if_false, Option.isSome_none]
    have hpt : ptrim (d0 :: ds') = d0 :: ds' := by
      unfold ptrim
      rw [ptrimL_cons_nonspace _ _ h0]
      have := ptrimR_append_last (d0 :: ds') [] dl hdl hdlf.1
      simpa [ptrimR_nil] using this
    rw [hpt, hsplit]
    have hne' : (ptrim (d0 :: ds')).isEmpty = false := by rw [hpt]; rfl
    simp [hpt, hpe, List.filter]
    rfl
  rw [parseStmts]
  simp only [ht]
  have e1 : ".8byte ".toList ++ d0 :: ds' = '.' :: ("8byte".toList ++ ' ' :: d0 :: ds') := by simp
  rw [e1]
  simp only [hn', hlow]
  simp [hpd, parseStmts, ptrim, ptrimL, ptrimR]
  rfl

theorem splitCommas_two (a b : List Char) (ha : ∀ c ∈ a, c ≠ ',' ∧ c ≠ '\'') (hb : ∀ c ∈ b, c ≠ ',' ∧ c ≠ '\'') :
    splitCommas (a ++ ',' :: b) = [a, b] := by
  unfold splitCommas
  have h1 : ∀ cur, splitCommasAux cur (a ++ ',' :: b) = (cur.reverse ++ a) :: splitCommasAux [] b := by
    induction a with
    | nil => intro cur; simp [aux_comma]
    | cons c a ih =>
      intro cur
      have hc := ha c (List.mem_cons_self ..)
      rw [List.cons_append, aux_other cur c _ hc.1 hc.2, ih (fun x hx => ha x (List.mem_cons_of_mem _ hx))]
      simp
  rw [h1, splitCommasAux_plain [] b hb]
  simp

/-- round trip of a fill line: `.fill N,V` with decimal numerals -/
theorem parseStmts_fill_decimal (cfg : PCfg) (f : Nat) (n v : Nat) :
    parseStmts cfg (f + 2) (".fill ".toList ++ Nat.toDigits 10 n ++ ',' :: Nat.toDigits 10 v) = .ok [.fill (.num n) (.num v)] := by
  have hdn := decimal_chars n
  have hdv := decimal_chars v
  have hnn : Nat.toDigits 10 n ≠ [] := Nat.toDigits_ne_nil
  have hnv : Nat.toDigits 10 v ≠ [] := Nat.toDigits_ne_nil
  have hpn : parseExprText (Nat.toDigits 10 n) = .ok (.num n) := parseExprText_decimal n
  have hpv : parseExprText (Nat.toDigits 10 v) = .ok (.num v) := parseExprText_decimal v
  generalize Nat.toDigits 10 n = dn at *
  generalize Nat.toDigits 10 v = dv at *
  -- the argument text
  have harg : ∀ c ∈ dn ++ ',' :: dv, isSpaceChar c = false ∧ c ≠ ':' ∧ c ≠ '"' := by
    intro c hc
    simp only [List.mem_append, List.mem_cons] at hc
    rcases hc with hc | rfl | hc
    · have := digit_facts c (hdn c hc); exact ⟨this.1, this.2.1, this.2.2.1⟩
    · decide
    · have := digit_facts c (hdv c hc); exact ⟨this.1, this.2.1, this.2.2.1⟩
  obtain ⟨dl, hdl⟩ : ∃ dl, dv.getLast? = some dl := by
    cases h : dv.getLast? with
    | none => simp at h; contradiction
    | some dl => exact ⟨dl, rfl⟩
  have hdlf := digit_facts dl (hdv dl (List.mem_of_getLast? hdl))
  have hsp : splitCommas (dn ++ ',' :: dv) = [dn, dv] := by
    apply splitCommas_two
    · intro c hc; have := hdn c hc; constructor <;> (rintro rfl; simp [Char.isDigit] at this)
    · intro c hc; have := hdv c hc; constructor <;> (rintro rfl; simp [Char.isDigit] at this)
  have htn : ptrim dn = dn := by
    obtain ⟨l, hl⟩ : ∃ l, dn.getLast? = some l := by
      cases h : dn.getLast? with
      | none => simp at h; contradiction
      | some l => exact ⟨l, rfl⟩
    obtain _ | ⟨d0, dn'⟩ := dn
    · contradiction
    unfold ptrim
    rw [ptrimL_cons_nonspace _ _ (digit_facts d0 (hdn d0 (List.mem_cons_self ..))).1]
    have := ptrimR_append_last (d0 :: dn') [] l hl (digit_facts l (hdn l (List.mem_of_getLast? hl))).1
    simpa [ptrimR_nil] using this
  have htv : ptrim dv = dv := by
    obtain _ | ⟨d0, dv'⟩ := dv
    · contradiction
    unfold ptrim
    rw [ptrimL_cons_nonspace _ _ (digit_facts d0 (hdv d0 (List.mem_cons_self ..))).1]
    have := ptrimR_append_last (d0 :: dv') [] dl hdl hdlf.1
    simpa [ptrimR_nil] using this
  rw [List.append_assoc]
  generalize hds : dn ++ ',' :: dv = ds at harg hsp
  have hdsl : ds.getLast? = some dl := by
    rw [← hds, List.getLast?_append]
    cases dv with
    | nil => contradiction
    | cons d0 dv' => simpa [List.getLast?_cons_cons] using hdl
  have hne : ds ≠ [] := by rw [← hds]; simp
  have hnosp : ∀ c ∈ ds, isSpaceChar c = false := fun c hc => (harg c hc).1
  have ht : ptrim (".fill ".toList ++ ds) = ".fill ".toList ++ ds := by
    unfold ptrim
    have h1 : ptrimL (".fill ".toList ++ ds) = ".fill ".toList ++ ds := by
      show ptrimL ('.' :: ('f' :: 'i' :: 'l' :: 'l' :: ' ' :: ds)) = _
      exact ptrimL_cons_nonspace _ _ (by decide)
    rw [h1]
    have hl' : (".fill ".toList ++ ds).getLast? = some dl := by
      rw [List.getLast?_append, hdsl]; rfl
    have := ptrimR_append_last (".fill ".toList ++ ds) [] dl hl' hdlf.1
    simpa [ptrimR_nil] using this
  have hn : takeName (".fill".toList ++ ' ' :: ds) = (".fill".toList, ' ' :: ds) :=
    takeName_name _ _ (by decide) (by intro c hc; simp at hc; subst hc; decide)
  have hcut : cutAtLabelDef [] (' ' :: ds) = (' ' :: ds, []) := by
    rw [cutAtLabelDef]
    have hns : startsLabelDef (ptrimL ds) = false := by
      apply startsLabelDef_no_colon
      intro c hc
      have hc' : c ∈ ds := by
        unfold ptrimL at hc; exact (List.dropWhile_sublist _).subset hc
      exact (harg c hc').2.1
    simp only [hns, Bool.and_false, Bool.false_eq_true, if_false]
    rw [cutAtLabelDef_nospace _ _ hnosp]
    simp
  have hown : ptrim (' ' :: ds) = ds := by
    obtain _ | ⟨d0, ds'⟩ := ds
    · contradiction
    have h0 : isSpaceChar d0 = false := hnosp d0 (List.mem_cons_self ..)
    unfold ptrim
    have : ptrimL (' ' :: d0 :: ds') = d0 :: ds' := by
      simp [ptrimL, h0, show isSpaceChar ' ' = true by decide]
    rw [this]
    have := ptrimR_append_last (d0 :: ds') [] dl hdsl hdlf.1
    simpa [ptrimR_nil] using this
  have hlow : lowerS ".fill".toList = ".fill" := by rw [lowerS_eq]; decide
  rw [parseStmts]
  simp only [ht]
  have e1 : ".fill ".toList ++ ds = '.' :: ("fill".toList ++ ' ' :: ds) := by simp
  have hn' : takeName ('.' :: ("fill".toList ++ ' ' :: ds)) = (".fill".toList, ' ' :: ds) := by
    have : '.' :: ("fill".toList ++ ' ' :: ds) = ".fill".toList ++ ' ' :: ds := by simp
    rw [this]; exact hn
  rw [e1]
  simp only [hn', hlow]
  simp only [hcut, hown, hsp, htn, htv, hpn, hpv]
  simp [parseStmts, ptrim, ptrimL, ptrimR]
  rfl

/-- round trip of a constant definition: `name = N` with a decimal numeral -/
theorem parseStmts_const_decimal (cfg : PCfg) (f : Nat) (w : List Char) (hw : NameText w) (hdot : w.head? ≠ some '.') (n : Nat) :
    parseStmts cfg (f + 2) (w ++ " = ".toList ++ Nat.toDigits 10 n) = .ok [.const (String.ofList w) (.num n)] := by
  have hds := decimal_chars n
  have hne : Nat.toDigits 10 n ≠ [] := Nat.toDigits_ne_nil
  have hpe : parseExprText (Nat.toDigits 10 n) = .ok (.num n) := parseExprText_decimal n
  generalize Nat.toDigits 10 n = ds at *
  obtain ⟨dl, hdl⟩ : ∃ dl, ds.getLast? = some dl := by
    cases h : ds.getLast? with
    | none => simp at h; contradiction
    | some dl => exact ⟨dl, rfl⟩
  have hdlf := digit_facts dl (hds dl (List.mem_of_getLast? hdl))
  obtain ⟨hwne, hwall⟩ := hw
  obtain _ | ⟨w0, w'⟩ := w
  · contradiction
  have hw0 : isNameChar w0 = true := hwall w0 (List.mem_cons_self ..)
  have hw0s : isSpaceChar w0 = false := by
    cases hs : isSpaceChar w0 with
    | false => rfl
    | true =>
      simp only [isSpaceChar, Bool.or_eq_true, beq_iff_eq] at hs
      rcases hs with rfl | rfl <;> simp [isNameChar, isWordChar, Char.isAlphanum, Char.isAlpha, Char.isUpper, Char.isLower, Char.isDigit] at hw0
  obtain _ | ⟨d0, ds'⟩ := ds
  · contradiction
  have h0 : isSpaceChar d0 = false := (digit_facts d0 (hds d0 (List.mem_cons_self ..))).1
  have hd0eq : d0 ≠ '=' := by
    have := hds d0 (List.mem_cons_self ..)
    rintro rfl; simp [Char.isDigit] at this
  have ht : ptrim (w0 :: w' ++ " = ".toList ++ d0 :: ds') = w0 :: w' ++ " = ".toList ++ d0 :: ds' := by
    unfold ptrim
    rw [List.cons_append, List.cons_append, ptrimL_cons_nonspace _ _ hw0s]
    have hl' : (w0 :: (w' ++ " = ".toList ++ d0 :: ds')).getLast? = some dl := by
      rw [← List.cons_append, ← List.cons_append, List.getLast?_append, hdl]; rfl
    have := ptrimR_append_last (w0 :: (w' ++ " = ".toList ++ d0 :: ds')) [] dl hl' hdlf.1
    simpa [ptrimR_nil] using this
  have hn : takeName (w0 :: w' ++ " = ".toList ++ d0 :: ds') = (w0 :: w', ' ' :: '=' :: ' ' :: d0 :: ds') := by
    have : w0 :: w' ++ " = ".toList ++ d0 :: ds' = (w0 :: w') ++ (' ' :: '=' :: ' ' :: d0 :: ds') := by simp
    rw [this]
    exact takeName_name _ _ hwall (by intro c hc; simp at hc; subst hc; decide)
  have hown : ptrim (' ' :: d0 :: ds') = d0 :: ds' := by
    unfold ptrim
    have : ptrimL (' ' :: d0 :: ds') = d0 :: ds' := by
      simp [ptrimL, h0, show isSpaceChar ' ' = true by decide]
    rw [this]
    have := ptrimR_append_last (d0 :: ds') [] dl hdl hdlf.1
    simpa [ptrimR_nil] using this
  have hr1 : ptrimL (' ' :: '=' :: ' ' :: d0 :: ds') = '=' :: ' ' :: d0 :: ds' := by
    simp [ptrimL, show isSpaceChar ' ' = true by decide, show isSpaceChar '=' = false by decide]
  have hdot' : (w0 == '.') = false := by
    simpa using hdot
  rw [parseStmts]
  simp only [ht]
  rw [show w0 :: w' ++ " = ".toList ++ d0 :: ds' = w0 :: (w' ++ " = ".toList ++ d0 :: ds') by simp]
  simp only []
  rw [show w0 :: (w' ++ " = ".toList ++ d0 :: ds') = w0 :: w' ++ " = ".toList ++ d0 :: ds' by simp]
  simp only [hn, hr1]
  simp [hown, hpe, hdot']
  rfl

/-- the text a renderer writes for the simplest statements: a label, an origin with a decimal address,
    a zone switch, a one-value data line with a decimal value -/
def renderSimple : Stmt → Option (List Char)
  | .label name => if name.toList ≠ [] ∧ name.toList.all isNameChar then some (name.toList ++ [':']) else none
  | .org (.num v) none => if 0 ≤ v then some (".org ".toList ++ Nat.toDigits 10 v.toNat) else none
  | .memzone z => if z.toList ≠ [] ∧ z.toList.all isWordChar then some (".memzone ".toList ++ z.toList) else none
  | .data 1 [.num v] => if 0 ≤ v then some (".byte ".toList ++ Nat.toDigits 10 v.toNat) else none
  | .data 2 [.num v] => if 0 ≤ v then some (".2byte ".toList ++ Nat.toDigits 10 v.toNat) else none
  | .data 4 [.num v] => if 0 ≤ v then some (".4byte ".toList ++ Nat.toDigits 10 v.toNat) else none
  | .data 8 [.num v] => if 0 ≤ v then some (".8byte ".toList ++ Nat.toDigits 10 v.toNat) else none
  | .fill (.num c) (.num v) =>
    if 0 ≤ c ∧ 0 ≤ v then some (".fill ".toList ++ Nat.toDigits 10 c.toNat ++ ',' :: Nat.toDigits 10 v.toNat) else none
  | .zerountil (.num v) => if 0 ≤ v then some (".zerountil ".toList ++ Nat.toDigits 10 v.toNat) else none
  | .align (some (.num v)) => if 0 ≤ v then some (".align ".toList ++ Nat.toDigits 10 v.toNat) else none
  | .const name (.num v) =>
    if name.toList ≠ [] ∧ name.toList.all isNameChar ∧ name.toList.head? ≠ some '.' ∧ 0 ≤ v
    then some (name.toList ++ " = ".toList ++ Nat.toDigits 10 v.toNat) else none
  | _ => none

theorem parseStmts_nil (cfg : PCfg) (f : Nat) : parseStmts cfg (f + 1) [] = .ok [] := by
  simp [parseStmts, ptrim, ptrimL, ptrimR]

/-- round trip: whatever `renderSimple` writes, the front end reads back as exactly that statement -/
theorem parse_renderSimple (cfg : PCfg) (f : Nat) (s : Stmt) (txt : List Char) (h : renderSimple s = some txt) :
    parseStmts cfg (f + 2) txt = .ok [s] := by
  unfold renderSimple at h
  split at h
  · -- label
    rename_i name
    split at h
    · rename_i hc
      cases h
      have hw : NameText name.toList := ⟨hc.1, by simpa [List.all_eq_true] using hc.2⟩
      rw [parseStmts_label_front cfg (f + 1) name.toList [] hw, parseStmts_nil]
      simp [bind, Except.bind]
    · cases h
  · -- org
    rename_i v
    split at h
    · rename_i hv
      cases h
      have := parseStmts_org_decimal cfg f v.toNat
      rw [this]
      rw [Int.toNat_of_nonneg hv]
    · cases h
  · -- memzone
    rename_i z
    split at h
    · rename_i hc
      cases h
      have := parseStmts_memzone_front cfg (f + 1) ".memzone".toList z.toList []
        ⟨by decide, by decide⟩ (by decide) (by rw [lowerS_eq]; decide)
        ⟨hc.1, by simpa [List.all_eq_true] using hc.2⟩ (by intro c hc; simp at hc)
      have e : ".memzone ".toList ++ z.toList = ".memzone".toList ++ ' ' :: z.toList ++ [] := by simp
      rw [e, this, parseStmts_nil]
      simp [bind, Except.bind]
    · cases h
  · -- data
    rename_i v
    split at h
    · rename_i hv
      cases h
      have := parseStmts_byte_decimal cfg f v.toNat
      rw [this]
      rw [Int.toNat_of_nonneg hv]
    · cases h
  · -- data 2
    rename_i v
    split at h
    · rename_i hv
      cases h
      have := parseStmts_2byte_decimal cfg f v.toNat
      rw [this]
      rw [Int.toNat_of_nonneg hv]
    · cases h
  · -- data 4
    rename_i v
    split at h
    · rename_i hv
      cases h
      have := parseStmts_4byte_decimal cfg f v.toNat
      rw [this]
      rw [Int.toNat_of_nonneg hv]
    · cases h
  · -- data 8
    rename_i v
    split at h
    · rename_i hv
      cases h
      have := parseStmts_8byte_decimal cfg f v.toNat
      rw [this]
      rw [Int.toNat_of_nonneg hv]
    · cases h
  · -- fill
    rename_i c v
    split at h
    · rename_i hv
      cases h
      have := parseStmts_fill_decimal cfg f c.toNat v.toNat
      rw [this]
      rw [Int.toNat_of_nonneg hv.1, Int.toNat_of_nonneg hv.2]
    · cases h
  · -- zerountil
    rename_i v
    split at h
    · rename_i hv
      cases h
      have := parseStmts_zerountil_decimal cfg f v.toNat
      rw [this]
      rw [Int.toNat_of_nonneg hv]
    · cases h
  · -- align
    rename_i v
    split at h
    · rename_i hv
      cases h
      have := parseStmts_align_decimal cfg f v.toNat
      rw [this]
      rw [Int.toNat_of_nonneg hv]
    · cases h
  · -- const
    rename_i name v
    split at h
    · rename_i hc
      cases h
      have hw : NameText name.toList := ⟨hc.1, by simpa [List.all_eq_true] using hc.2.1⟩
      have := parseStmts_const_decimal cfg f name.toList hw hc.2.2.1 v.toNat
      rw [this]
      rw [Int.toNat_of_nonneg hc.2.2.2]
      simp
    · cases h
  · cases h

theorem parseStmts_lead_space (cfg : PCfg) (f : Nat) (t : List Char) :
    parseStmts cfg f (' ' :: t) = parseStmts cfg f t := by
  rw [← parseStmts_trim cfg f (' ' :: t), ← parseStmts_trim cfg f t]
  congr 1

/-- labels written in front of a statement on one line, each followed by a blank -/
def renderLabels : List String → List Char
  | [] => []
  | w :: ws => w.toList ++ ':' :: ' ' :: renderLabels ws

theorem parse_labels_renderSimple (cfg : PCfg) (f : Nat) (ws : List String) (s : Stmt) (txt : List Char)
    (hws : ∀ w ∈ ws, NameText w.toList) (h : renderSimple s = some txt) :
    parseStmts cfg (f + 2 + ws.length) (renderLabels ws ++ txt) = .ok (ws.map .label ++ [s]) := by
  induction ws with
  | nil => simpa [renderLabels] using parse_renderSimple cfg f s txt h
  | cons w ws ih =>
    have hw := hws w (List.mem_cons_self ..)
    have ih' := ih (fun x hx => hws x (List.mem_cons_of_mem _ hx))
    have e : renderLabels (w :: ws) ++ txt = w.toList ++ ':' :: (' ' :: (renderLabels ws ++ txt)) := by
      simp [renderLabels]
    rw [e, List.length_cons, ← Nat.add_assoc, parseStmts_label_front cfg _ w.toList _ hw, parseStmts_lead_space, ih']
    simp [bind, Except.bind]
end BV
