/-
  Render / parse round trips for the simplest lines: the text a renderer writes for an origin or a
  one-value data statement with a decimal number is read back by the front end as exactly that statement.
-/
import BespokeVerif.Lemmas.Parse
import BespokeVerif.Lemmas.ExprLex
import BespokeVerif.Lemmas.ExprParse
import BespokeVerif.Lemmas.Split
namespace BV
open LexLemmas SplitLemmas

theorem parseExpr_num (v : Int) : parseExpr [Tok.num v] = .ok (.num v) := by
  have := ParseLemmas.parseExpr_complete (ParseLemmas.ppAt_gram (.num v) 0 (Nat.zero_le _))
  simpa [ppAt] using this

/-- the decimal spelling of a number, read as an expression text, is that number -/
theorem parseExprText_decimal (n : Nat) : parseExprText (Nat.toDigits 10 n) = .ok (.num n) := by
  unfold parseExprText
  rw [lex_decimal n]
  simp only [bind, Except.bind]
  exact parseExpr_num n


theorem startsLabelDef_no_colon (cs : List Char) (h : ∀ c ∈ cs, c ≠ ':') : startsLabelDef cs = false := by
  unfold startsLabelDef
  simp only
  cases hb : (!(List.takeWhile isWordChar (if cs.head? == some '.' then cs.tail else cs)).isEmpty &&
      (List.drop (List.takeWhile isWordChar (if cs.head? == some '.' then cs.tail else cs)).length
        (if cs.head? == some '.' then cs.tail else cs)).head? == some ':') with
  | false => rfl
  | true =>
    exfalso
    simp only [Bool.and_eq_true, beq_iff_eq] at hb
    have hm := List.mem_of_mem_head? hb.2
    have hm2 := List.mem_of_mem_drop hm
    have : (':' : Char) ∈ cs := by
      split at hm2
      · exact List.mem_of_mem_tail hm2
      · exact hm2
    exact h ':' this rfl

theorem cutAtLabelDef_nospace (acc l : List Char) (h : ∀ c ∈ l, isSpaceChar c = false) :
    cutAtLabelDef acc l = (acc.reverse ++ l, []) := by
  induction l generalizing acc with
  | nil => simp [cutAtLabelDef]
  | cons c l ih =>
    rw [cutAtLabelDef]
    simp only [h c (List.mem_cons_self ..), Bool.false_and, Bool.false_eq_true, if_false]
    rw [ih _ (fun x hx => h x (List.mem_cons_of_mem _ hx))]
    simp

/-- digits: word characters, no blanks, no colon, no quote -/
theorem decimal_chars (n : Nat) : ∀ c ∈ Nat.toDigits 10 n, c.isDigit = true := LexLemmas.toDigits_all_dec n

theorem digit_facts (c : Char) (h : c.isDigit = true) : isSpaceChar c = false ∧ c ≠ ':' ∧ c ≠ '"' ∧ isNameChar c = true := by
  have hr : 48 ≤ c.val ∧ c.val ≤ 57 := by simpa [Char.isDigit] using h
  refine ⟨?_, ?_, ?_, ?_⟩
  · cases hs : isSpaceChar c with
    | false => rfl
    | true =>
      simp only [isSpaceChar, Bool.or_eq_true, beq_iff_eq] at hs
      rcases hs with rfl | rfl <;> simp [Char.isDigit] at h
  · rintro rfl; simp [Char.isDigit] at h
  · rintro rfl; simp [Char.isDigit] at h
  · simp [isNameChar, isWordChar, Char.isAlphanum, h]


/-- round trip of the simplest origin line: `.org` followed by the decimal spelling of an address is
    read back as the origin statement with exactly that address -/
theorem parseStmts_org_decimal (cfg : PCfg) (f : Nat) (n : Nat) :
    parseStmts cfg (f + 2) (".org ".toList ++ Nat.toDigits 10 n) = .ok [.org (.num n) none] := by
  have hds := decimal_chars n
  have hne : Nat.toDigits 10 n ≠ [] := Nat.toDigits_ne_nil
  generalize hD : Nat.toDigits 10 n = ds at hds hne
  have hpe : parseExprText ds = .ok (.num n) := by rw [← hD]; exact parseExprText_decimal n
  obtain ⟨dl, hdl⟩ : ∃ dl, ds.getLast? = some dl := by
    cases h : ds.getLast? with
    | none => simp at h; contradiction
    | some dl => exact ⟨dl, rfl⟩
  have hdlf := digit_facts dl (hds dl (List.mem_of_getLast? hdl))
  have hnosp : ∀ c ∈ ds, isSpaceChar c = false := fun c hc => (digit_facts c (hds c hc)).1
  have ht : ptrim (".org ".toList ++ ds) = ".org ".toList ++ ds := by
    unfold ptrim
    have h1 : ptrimL (".org ".toList ++ ds) = ".org ".toList ++ ds := by
      show ptrimL ('.' :: ('o' :: 'r' :: 'g' :: ' ' :: ds)) = _
      exact ptrimL_cons_nonspace _ _ (by decide)
    rw [h1]
    have hl' : (".org ".toList ++ ds).getLast? = some dl := by
      rw [List.getLast?_append, hdl]; rfl
    have := ptrimR_append_last (".org ".toList ++ ds) [] dl hl' hdlf.1
    simpa [ptrimR_nil] using this
  have hn : takeName (".org".toList ++ ' ' :: ds) = (".org".toList, ' ' :: ds) :=
    takeName_name _ _ (by decide) (by intro c hc; simp at hc; subst hc; decide)
  have hcut : cutAtLabelDef [] (' ' :: ds) = (' ' :: ds, []) := by
    rw [cutAtLabelDef]
    have hns : startsLabelDef (ptrimL ds) = false := by
      apply startsLabelDef_no_colon
      intro c hc
      have hc' : c ∈ ds := by
        unfold ptrimL at hc; exact (List.dropWhile_sublist _).subset hc
      exact (digit_facts c (hds c hc')).2.1
    simp only [hns, Bool.and_false, Bool.false_eq_true, if_false]
    rw [cutAtLabelDef_nospace _ _ hnosp]
    simp
  have hown : ptrim (' ' :: ds) = ds := by
    obtain _ | ⟨d0, ds'⟩ := ds
    · contradiction
    have h0 : isSpaceChar d0 = false := hnosp d0 (List.mem_cons_self ..)
    unfold ptrim
    have : ptrimL (' ' :: d0 :: ds') = d0 :: ds' := by
      simp [ptrimL, h0, show isSpaceChar ' ' = true by decide]
    rw [this]
    have := ptrimR_append_last (d0 :: ds') [] dl hdl hdlf.1
    simpa [ptrimR_nil] using this
  have hlow : lowerS ".org".toList = ".org" := by rw [lowerS_eq]; decide
  rw [parseStmts]
  simp only [ht]
  have e1 : ".org ".toList ++ ds = '.' :: ("org".toList ++ ' ' :: ds) := by simp
  have hn' : takeName ('.' :: ("org".toList ++ ' ' :: ds)) = (".org".toList, ' ' :: ds) := by
    have : '.' :: ("org".toList ++ ' ' :: ds) = ".org".toList ++ ' ' :: ds := by simp
    rw [this]; exact hn
  rw [e1]
  simp only [hn', hlow]
  simp only [hcut, hown]
  rw [hdl]
  simp [hdlf.2.2.1, hpe, parseStmts, ptrim, ptrimL, ptrimR]
  rfl


theorem splitCommasAux_plain (cur l : List Char) (h : ∀ c ∈ l, c ≠ ',' ∧ c ≠ '\'') :
    splitCommasAux cur l = [cur.reverse ++ l] := by
  induction l generalizing cur with
  | nil => simp [aux_nil]
  | cons c l ih =>
    have hc := h c (List.mem_cons_self ..)
    rw [aux_other cur c l hc.1 hc.2, ih _ (fun x hx => h x (List.mem_cons_of_mem _ hx))]
    simp

/-- round trip of the simplest data line: `.byte` followed by the decimal spelling of a value -/
theorem parseStmts_byte_decimal (cfg : PCfg) (f : Nat) (n : Nat) :
    parseStmts cfg (f + 2) (".byte ".toList ++ Nat.toDigits 10 n) = .ok [.data 1 [.num n]] := by
  have hds := decimal_chars n
  have hne : Nat.toDigits 10 n ≠ [] := Nat.toDigits_ne_nil
  generalize hD : Nat.toDigits 10 n = ds at hds hne
  have hpe : parseExprText ds = .ok (.num n) := by rw [← hD]; exact parseExprText_decimal n
  obtain ⟨dl, hdl⟩ : ∃ dl, ds.getLast? = some dl := by
    cases h : ds.getLast? with
    | none => simp at h; contradiction
    | some dl => exact ⟨dl, rfl⟩
  have hdlf := digit_facts dl (hds dl (List.mem_of_getLast? hdl))
  have hnosp : ∀ c ∈ ds, isSpaceChar c = false := fun c hc => (digit_facts c (hds c hc)).1
  obtain _ | ⟨d0, ds'⟩ := ds
  · contradiction
  have hd0 := hds d0 (List.mem_cons_self ..)
  have h0 : isSpaceChar d0 = false := hnosp d0 (List.mem_cons_self ..)
  have hq0 : isQuote d0 = false := by
    cases hq : isQuote d0 with
    | false => rfl
    | true =>
      simp only [isQuote, Bool.or_eq_true, beq_iff_eq] at hq
      rcases hq with rfl | rfl <;> simp [Char.isDigit] at hd0
  have ht : ptrim (".byte ".toList ++ d0 :: ds') = ".byte ".toList ++ d0 :: ds' := by
    unfold ptrim
    have h1 : ptrimL (".byte ".toList ++ d0 :: ds') = ".byte ".toList ++ d0 :: ds' := by
      show ptrimL ('.' :: ('b' :: 'y' :: 't' :: 'e' :: ' ' :: d0 :: ds')) = _
      exact ptrimL_cons_nonspace _ _ (by decide)
    rw [h1]
    have hl' : (".byte ".toList ++ d0 :: ds').getLast? = some dl := by
      rw [List.getLast?_append, hdl]; rfl
    have := ptrimR_append_last (".byte ".toList ++ d0 :: ds') [] dl hl' hdlf.1
    simpa [ptrimR_nil] using this
  have hn' : takeName ('.' :: ("byte".toList ++ ' ' :: d0 :: ds')) = (".byte".toList, ' ' :: d0 :: ds') := by
    have : '.' :: ("byte".toList ++ ' ' :: d0 :: ds') = ".byte".toList ++ ' ' :: d0 :: ds' := by simp
    rw [this]
    exact takeName_name _ _ (by decide) (by intro c hc; simp at hc; subst hc; decide)
  have hlow : lowerS ".byte".toList = ".byte" := by rw [lowerS_eq]; decide
  have hown : ptrim (' ' :: d0 :: ds') = d0 :: ds' := by
    unfold ptrim
    have : ptrimL (' ' :: d0 :: ds') = d0 :: ds' := by
      simp [ptrimL, h0, show isSpaceChar ' ' = true by decide]
    rw [this]
    have := ptrimR_append_last (d0 :: ds') [] dl hdl hdlf.1
    simpa [ptrimR_nil] using this
  have hsplit : splitCommas (d0 :: ds') = [d0 :: ds'] := by
    unfold splitCommas
    rw [splitCommasAux_plain [] _ (fun c hc => by
      have hcd := hds c hc
      constructor <;> (rintro rfl; simp [Char.isDigit] at hcd))]
    simp
  have hpd : parseData cfg 1 none (' ' :: d0 :: ds') = .ok (.data 1 [.num n], []) := by
    unfold parseData
    have hpl : ptrimL (' ' :: d0 :: ds') = d0 :: ds' := by
      simp [ptrimL, h0, show isSpaceChar ' ' = true by decide]
    simp only [hpl, hq0, Bool.false_eq_true, if_false, Option.isSome_none]
    have hpt : ptrim (d0 :: ds') = d0 :: ds' := by
      unfold ptrim
      rw [ptrimL_cons_nonspace _ _ h0]
      have := ptrimR_append_last (d0 :: ds') [] dl hdl hdlf.1
      simpa [ptrimR_nil] using this
    rw [hpt, hsplit]
    have hne' : (ptrim (d0 :: ds')).isEmpty = false := by rw [hpt]; rfl
    simp [hpt, hpe, List.filter]
    rfl
  rw [parseStmts]
  simp only [ht]
  have e1 : ".byte ".toList ++ d0 :: ds' = '.' :: ("byte".toList ++ ' ' :: d0 :: ds') := by simp
  rw [e1]
  simp only [hn', hlow]
  simp [hpd, parseStmts, ptrim, ptrimL, ptrimR]
  rfl

/-- the text a renderer writes for the simplest statements: a label, an origin with a decimal address,
    a zone switch, a one-value data line with a decimal value -/
def renderSimple : Stmt → Option (List Char)
  | .label name => if name.toList ≠ [] ∧ name.toList.all isNameChar then some (name.toList ++ [':']) else none
  | .org (.num v) none => if 0 ≤ v then some (".org ".toList ++ Nat.toDigits 10 v.toNat) else none
  | .memzone z => if z.toList ≠ [] ∧ z.toList.all isWordChar then some (".memzone ".toList ++ z.toList) else none
  | .data 1 [.num v] => if 0 ≤ v then some (".byte ".toList ++ Nat.toDigits 10 v.toNat) else none
  | _ => none

theorem parseStmts_nil (cfg : PCfg) (f : Nat) : parseStmts cfg (f + 1) [] = .ok [] := by
  simp [parseStmts, ptrim, ptrimL, ptrimR]

/-- round trip: whatever `renderSimple` writes, the front end reads back as exactly that statement -/
theorem parse_renderSimple (cfg : PCfg) (f : Nat) (s : Stmt) (txt : List Char) (h : renderSimple s = some txt) :
    parseStmts cfg (f + 2) txt = .ok [s] := by
  unfold renderSimple at h
  split at h
  · -- label
    rename_i name
    split at h
    · rename_i hc
      cases h
      have hw : NameText name.toList := ⟨hc.1, by simpa [List.all_eq_true] using hc.2⟩
      rw [parseStmts_label_front cfg (f + 1) name.toList [] hw, parseStmts_nil]
      simp [bind, Except.bind]
    · cases h
  · -- org
    rename_i v
    split at h
    · rename_i hv
      cases h
      have := parseStmts_org_decimal cfg f v.toNat
      rw [this]
      rw [Int.toNat_of_nonneg hv]
    · cases h
  · -- memzone
    rename_i z
    split at h
    · rename_i hc
      cases h
      have := parseStmts_memzone_front cfg (f + 1) ".memzone".toList z.toList []
        ⟨by decide, by decide⟩ (by decide) (by rw [lowerS_eq]; decide)
        ⟨hc.1, by simpa [List.all_eq_true] using hc.2⟩ (by intro c hc; simp at hc)
      have e : ".memzone ".toList ++ z.toList = ".memzone".toList ++ ' ' :: z.toList ++ [] := by simp
      rw [e, this, parseStmts_nil]
      simp [bind, Except.bind]
    · cases h
  · -- data
    rename_i v
    split at h
    · rename_i hv
      cases h
      have := parseStmts_byte_decimal cfg f v.toNat
      rw [this]
      rw [Int.toNat_of_nonneg hv]
    · cases h
  · cases h

end BV
