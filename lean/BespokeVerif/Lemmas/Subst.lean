/-
  Helper lemmas for property C09 (symbol substitution).
-/
import BespokeVerif.Model.Subst
import BespokeVerif.Lemmas.Bits
namespace BV

/-! ## sequential expansion of a line, non-mutual form -/

/-- run `g` on every segment, concatenating the results (first error wins) -/
def seqM (g : Seg → Except Err (List Seg)) : List Seg → Except Err (List Seg)
  | [] => .ok []
  | s :: rest => do
    let e ← g s
    let r ← seqM g rest
    .ok (e ++ r)

/-- per-segment step given a per-word expander -/
def wordStep (W : String → Except Err (List Seg)) : Seg → Except Err (List Seg)
  | .other o => .ok [.other o]
  | .word w => W w

theorem expandSegs_succ (t : STab) (f : Nat) (p : List String) (l : List Seg) :
    expandSegs t (f + 1) p l = seqM (wordStep (expandWord t f p)) l := by
  induction l with
  | nil => simp [expandSegs, seqM]
  | cons s rest ih =>
    cases s with
    | word w => rw [expandSegs, ih]; rfl
    | other o => rw [expandSegs, ih]; simp only [seqM, wordStep]; cases seqM (wordStep (expandWord t f p)) rest <;> rfl

theorem expandSegs_zero (t : STab) (p : List String) (l : List Seg) :
    expandSegs t 0 p l = .error .outOfFuel := by
  rw [expandSegs]

theorem expandWord_zero (t : STab) (p : List String) (s : String) :
    expandWord t 0 p s = .error .outOfFuel := by
  rw [expandWord]

theorem expandWord_noncand (t : STab) (f : Nat) (p : List String) (s : String)
    (h : isCandidate s = false) : expandWord t (f + 1) p s = .ok [.word s] := by
  rw [expandWord]; simp [h]

theorem expandWord_undef (t : STab) (f : Nat) (p : List String) (s : String)
    (h : t.get? s = none) : expandWord t (f + 1) p s = .ok [.word s] := by
  rw [expandWord]; simp [h]

theorem expandWord_cycle (t : STab) (f : Nat) (p : List String) (s : String) (v : List Seg)
    (hc : isCandidate s = true) (h : t.get? s = some v) (hp : s ∈ p) :
    expandWord t (f + 1) p s = .error .symbolCycle := by
  rw [expandWord]; simp [h, hc, hp]

theorem expandWord_step (t : STab) (f : Nat) (p : List String) (s : String) (v : List Seg)
    (hc : isCandidate s = true) (h : t.get? s = some v) (hp : s ∉ p) :
    expandWord t (f + 1) p s = expandSegs t f (s :: p) v := by
  rw [expandWord]; simp [h, hc, hp]

/-! ## generic facts on `seqM` -/

@[simp] theorem seqM_nil (g : Seg → Except Err (List Seg)) : seqM g [] = .ok [] := rfl

theorem seqM_cons_ok (g : Seg → Except Err (List Seg)) (s : Seg) (rest e : List Seg) (h : g s = .ok e) :
    seqM g (s :: rest) = (seqM g rest).map (e ++ ·) := by
  simp only [seqM, h]; cases seqM g rest <;> rfl

theorem seqM_cons_error (g : Seg → Except Err (List Seg)) (s : Seg) (rest : List Seg) (e : Err)
    (h : g s = .error e) : seqM g (s :: rest) = .error e := by
  simp only [seqM, h]; rfl

theorem seqM_append (g : Seg → Except Err (List Seg)) (a b : List Seg) :
    seqM g (a ++ b) = (do let x ← seqM g a; let y ← seqM g b; .ok (x ++ y)) := by
  induction a with
  | nil => simp only [List.nil_append, seqM_nil]; cases seqM g b <;> rfl
  | cons s rest ih =>
    cases hs : g s with
    | error e => rw [List.cons_append, seqM_cons_error _ _ _ _ hs, seqM_cons_error _ _ _ _ hs]; rfl
    | ok e =>
      rw [List.cons_append, seqM_cons_ok _ _ _ _ hs, seqM_cons_ok _ _ _ _ hs, ih]
      cases seqM g rest with
      | error e' => rfl
      | ok x => cases seqM g b with
        | error e' => rfl
        | ok y => simp [Except.map, bind, Except.bind]

theorem seqM_congr (g g' : Seg → Except Err (List Seg)) (l : List Seg) (h : ∀ s ∈ l, g s = g' s) :
    seqM g l = seqM g' l := by
  induction l with
  | nil => rfl
  | cons s rest ih =>
    simp only [seqM, h s (List.mem_cons_self ..), ih (fun x hx => h x (List.mem_cons_of_mem _ hx))]

theorem seqM_id (g : Seg → Except Err (List Seg)) (l : List Seg) (h : ∀ s ∈ l, g s = .ok [s]) :
    seqM g l = .ok l := by
  induction l with
  | nil => rfl
  | cons s rest ih =>
    rw [seqM_cons_ok _ _ _ _ (h s (List.mem_cons_self ..)), ih (fun x hx => h x (List.mem_cons_of_mem _ hx))]
    rfl

theorem seqM_error_elim (g : Seg → Except Err (List Seg)) (l : List Seg) (e : Err)
    (h : seqM g l = .error e) : ∃ s ∈ l, g s = .error e := by
  induction l with
  | nil => cases h
  | cons s rest ih =>
    cases hs : g s with
    | error e' =>
      rw [seqM_cons_error _ _ _ _ hs] at h
      exact ⟨s, List.mem_cons_self .., by rw [hs, h]⟩
    | ok x =>
      rw [seqM_cons_ok _ _ _ _ hs] at h
      cases hr : seqM g rest with
      | ok y => rw [hr] at h; cases h
      | error e' =>
        rw [hr] at h
        have : e' = e := by cases h; rfl
        obtain ⟨s', hm, hs'⟩ := ih (this ▸ hr)
        exact ⟨s', List.mem_cons_of_mem _ hm, hs'⟩

theorem seqM_error_of_mem (g : Seg → Except Err (List Seg)) (l : List Seg) (s : Seg) (e : Err)
    (hm : s ∈ l) (h : g s = .error e) : ∃ e', seqM g l = .error e' := by
  induction l with
  | nil => cases hm
  | cons x rest ih =>
    cases hx : g x with
    | error e' => exact ⟨e', seqM_cons_error _ _ _ _ hx⟩
    | ok y =>
      rw [seqM_cons_ok _ _ _ _ hx]
      rcases List.mem_cons.1 hm with rfl | hm'
      · rw [hx] at h; cases h
      · obtain ⟨e', he'⟩ := ih hm'
        exact ⟨e', by rw [he']; rfl⟩

theorem seqM_ok_elim (g : Seg → Except Err (List Seg)) (l r : List Seg)
    (h : seqM g l = .ok r) : ∀ x ∈ r, ∃ s ∈ l, ∃ e, g s = .ok e ∧ x ∈ e := by
  induction l generalizing r with
  | nil => cases h; intro x hx; cases hx
  | cons s rest ih =>
    cases hs : g s with
    | error e' => rw [seqM_cons_error _ _ _ _ hs] at h; cases h
    | ok y =>
      rw [seqM_cons_ok _ _ _ _ hs] at h
      cases hr : seqM g rest with
      | error e' => rw [hr] at h; cases h
      | ok z =>
        rw [hr] at h
        have : r = y ++ z := by cases h; rfl
        subst this
        intro x hx
        rcases List.mem_append.1 hx with hx | hx
        · exact ⟨s, List.mem_cons_self .., y, hs, hx⟩
        · obtain ⟨s', hm, e, he, hxe⟩ := ih z hr x hx
          exact ⟨s', List.mem_cons_of_mem _ hm, e, he, hxe⟩

/-! ## defined symbols -/

/-- `w` is a candidate with an entry in the table -/
def isDef (t : STab) (w : String) : Bool := isCandidate w && (t.get? w).isSome

def segDef (t : STab) : Seg → Bool
  | .word w => isDef t w
  | .other _ => false

theorem expandWord_not_def (t : STab) (f : Nat) (p : List String) (s : String) (h : isDef t s = false) :
    expandWord t (f + 1) p s = .ok [.word s] := by
  unfold isDef at h
  cases hc : isCandidate s with
  | false => exact expandWord_noncand _ _ _ _ hc
  | true =>
    rw [hc] at h
    cases hg : t.get? s with
    | none => exact expandWord_undef _ _ _ _ hg
    | some v => rw [hg] at h; simp at h

theorem wordStep_not_def (t : STab) (f : Nat) (p : List String) (s : Seg) (h : segDef t s = false) :
    wordStep (expandWord t (f + 1) p) s = .ok [s] := by
  cases s with
  | other o => rfl
  | word w => exact expandWord_not_def _ _ _ _ h

theorem isDef_cases (t : STab) (s : String) (h : isDef t s = true) :
    isCandidate s = true ∧ ∃ v, t.get? s = some v := by
  unfold isDef at h
  simp only [Bool.and_eq_true] at h
  refine ⟨h.1, ?_⟩
  cases hg : t.get? s with
  | none => rw [hg] at h; simp at h
  | some v => exact ⟨v, rfl⟩

/-- the expansion contains no defined symbol (any fuel) -/
theorem expandWord_fix (t : STab) (f : Nat) : ∀ (p : List String) (s : String) (r : List Seg),
    expandWord t f p s = .ok r → ∀ x ∈ r, segDef t x = false := by
  induction f using Nat.strongRecOn with
  | _ f ih =>
    intro p s r h
    cases f with
    | zero => rw [expandWord_zero] at h; cases h
    | succ f =>
      cases hd : isDef t s with
      | false =>
        rw [expandWord_not_def _ _ _ _ hd] at h
        cases h
        intro x hx
        simp only [List.mem_singleton] at hx
        subst hx; exact hd
      | true =>
        obtain ⟨hc, v, hv⟩ := isDef_cases _ _ hd
        by_cases hp : s ∈ p
        · rw [expandWord_cycle _ _ _ _ _ hc hv hp] at h; cases h
        · rw [expandWord_step _ _ _ _ _ hc hv hp] at h
          cases f with
          | zero => rw [expandSegs_zero] at h; cases h
          | succ f =>
            rw [expandSegs_succ] at h
            intro x hx
            obtain ⟨sg, _, e, he, hxe⟩ := seqM_ok_elim _ _ _ h x hx
            cases sg with
            | other o => cases he; simp only [List.mem_singleton] at hxe; subst hxe; rfl
            | word w => exact ih f (by omega) _ _ _ he x hxe

theorem expandSegs_fix (t : STab) (f : Nat) (p : List String) (l r : List Seg)
    (h : expandSegs t f p l = .ok r) : ∀ x ∈ r, segDef t x = false := by
  cases f with
  | zero => rw [expandSegs_zero] at h; cases h
  | succ f =>
    rw [expandSegs_succ] at h
    intro x hx
    obtain ⟨sg, _, e, he, hxe⟩ := seqM_ok_elim _ _ _ h x hx
    cases sg with
    | other o => cases he; simp only [List.mem_singleton] at hxe; subst hxe; rfl
    | word w => exact expandWord_fix t f _ _ _ he x hxe

/-- only two kinds of errors -/
theorem expandWord_kinds (t : STab) (f : Nat) : ∀ (p : List String) (s : String) (e : Err),
    expandWord t f p s = .error e → e = .outOfFuel ∨ e = .symbolCycle := by
  induction f using Nat.strongRecOn with
  | _ f ih =>
    intro p s e h
    cases f with
    | zero => rw [expandWord_zero] at h; cases h; exact .inl rfl
    | succ f =>
      cases hd : isDef t s with
      | false => rw [expandWord_not_def _ _ _ _ hd] at h; cases h
      | true =>
        obtain ⟨hc, v, hv⟩ := isDef_cases _ _ hd
        by_cases hp : s ∈ p
        · rw [expandWord_cycle _ _ _ _ _ hc hv hp] at h; cases h; exact .inr rfl
        · rw [expandWord_step _ _ _ _ _ hc hv hp] at h
          cases f with
          | zero => rw [expandSegs_zero] at h; cases h; exact .inl rfl
          | succ f =>
            rw [expandSegs_succ] at h
            obtain ⟨sg, _, he⟩ := seqM_error_elim _ _ _ h
            cases sg with
            | other o => cases he
            | word w => exact ih f (by omega) _ _ _ he


/-! ## the path is duplicate-free and made of table entries, hence short -/

theorem nodup_length_le {α : Type} [DecidableEq α] (p : List α) : ∀ (m : List α), p.Nodup →
    (∀ x ∈ p, x ∈ m) → p.length ≤ m.length := by
  induction p with
  | nil => intro m _ _; simp
  | cons x p ih =>
    intro m hn hs
    rw [List.nodup_cons] at hn
    have hx : x ∈ m := hs x (List.mem_cons_self ..)
    have h1 : ∀ y ∈ p, y ∈ m.erase x := by
      intro y hy
      have hne : y ≠ x := fun h => hn.1 (h ▸ hy)
      exact (List.mem_erase_of_ne hne).2 (hs y (List.mem_cons_of_mem _ hy))
    have h2 := ih (m.erase x) hn.2 h1
    rw [List.length_erase_of_mem hx] at h2
    have : 0 < m.length := List.length_pos_of_mem hx
    simp only [List.length_cons]; omega

theorem get?_isSome_mem (t : STab) (s : String) (h : (t.get? s).isSome = true) : s ∈ t.map (·.1) := by
  unfold STab.get? at h
  cases hf : t.find? (·.1 == s) with
  | none => rw [hf] at h; simp at h
  | some a =>
    have h1 := List.find?_some hf
    have h2 := List.mem_of_find?_eq_some hf
    simp only [beq_iff_eq] at h1
    exact List.mem_map.2 ⟨a, h2, h1⟩

/-- invariant of the path / the `resolved` set -/
def GoodPath (t : STab) (p : List String) : Prop := p.Nodup ∧ ∀ s ∈ p, (t.get? s).isSome = true

theorem GoodPath.nil (t : STab) : GoodPath t [] := ⟨List.nodup_nil, fun _ h => nomatch h⟩

theorem GoodPath.length_le {t : STab} {p : List String} (h : GoodPath t p) : p.length ≤ t.length := by
  have := nodup_length_le p (t.map (·.1)) h.1 (fun x hx => get?_isSome_mem t x (h.2 x hx))
  simpa using this

theorem GoodPath.cons {t : STab} {p : List String} (h : GoodPath t p) (s : String) (v : List Seg)
    (hv : t.get? s = some v) (hp : s ∉ p) : GoodPath t (s :: p) := by
  refine ⟨List.nodup_cons.2 ⟨hp, h.1⟩, ?_⟩
  intro x hx
  rcases List.mem_cons.1 hx with rfl | hx
  · rw [hv]; rfl
  · exact h.2 x hx

/-- with enough fuel the result does not depend on the fuel and is never `outOfFuel` -/
theorem expandWord_stable (t : STab) : ∀ (d : Nat) (p : List String), GoodPath t p →
    t.length - p.length ≤ d → ∀ f f', 2 * d + 1 ≤ f → 2 * d + 1 ≤ f' → ∀ s,
      expandWord t f p s = expandWord t f' p s ∧ expandWord t f p s ≠ .error .outOfFuel := by
  intro d
  induction d with
  | zero =>
    intro p hg hd f f' hf hf' s
    obtain ⟨f, rfl⟩ : ∃ k, f = k + 1 := ⟨f - 1, by omega⟩
    obtain ⟨f', rfl⟩ : ∃ k, f' = k + 1 := ⟨f' - 1, by omega⟩
    cases hdf : isDef t s with
    | false => rw [expandWord_not_def _ _ _ _ hdf, expandWord_not_def _ _ _ _ hdf]; exact ⟨rfl, by simp⟩
    | true =>
      obtain ⟨hc, v, hv⟩ := isDef_cases _ _ hdf
      by_cases hp : s ∈ p
      · rw [expandWord_cycle _ _ _ _ _ hc hv hp, expandWord_cycle _ _ _ _ _ hc hv hp]; exact ⟨rfl, by simp⟩
      · have := (hg.cons s v hv hp).length_le
        simp only [List.length_cons] at this
        omega
  | succ d ih =>
    intro p hg hd f f' hf hf' s
    obtain ⟨f, rfl⟩ : ∃ k, f = k + 1 + 1 := ⟨f - 2, by omega⟩
    obtain ⟨f', rfl⟩ : ∃ k, f' = k + 1 + 1 := ⟨f' - 2, by omega⟩
    cases hdf : isDef t s with
    | false => rw [expandWord_not_def _ _ _ _ hdf, expandWord_not_def _ _ _ _ hdf]; exact ⟨rfl, by simp⟩
    | true =>
      obtain ⟨hc, v, hv⟩ := isDef_cases _ _ hdf
      by_cases hp : s ∈ p
      · rw [expandWord_cycle _ _ _ _ _ hc hv hp, expandWord_cycle _ _ _ _ _ hc hv hp]; exact ⟨rfl, by simp⟩
      · have hg' := hg.cons s v hv hp
        have hd' : t.length - (s :: p).length ≤ d := by simp only [List.length_cons]; omega
        rw [expandWord_step _ _ _ _ _ hc hv hp, expandWord_step _ _ _ _ _ hc hv hp,
          expandSegs_succ, expandSegs_succ]
        constructor
        · apply seqM_congr
          intro sg _
          cases sg with
          | other o => rfl
          | word w => exact (ih _ hg' hd' f f' (by omega) (by omega) w).1
        · intro h
          obtain ⟨sg, _, he⟩ := seqM_error_elim _ _ _ h
          cases sg with
          | other o => cases he
          | word w => exact (ih _ hg' hd' f f' (by omega) (by omega) w).2 he

theorem expandSegs_stable (t : STab) (d : Nat) (p : List String) (hg : GoodPath t p)
    (hd : t.length - p.length ≤ d) (f f' : Nat) (hf : 2 * d + 2 ≤ f) (hf' : 2 * d + 2 ≤ f') (l : List Seg) :
    expandSegs t f p l = expandSegs t f' p l ∧ expandSegs t f p l ≠ .error .outOfFuel := by
  obtain ⟨f, rfl⟩ : ∃ k, f = k + 1 := ⟨f - 1, by omega⟩
  obtain ⟨f', rfl⟩ : ∃ k, f' = k + 1 := ⟨f' - 1, by omega⟩
  rw [expandSegs_succ, expandSegs_succ]
  constructor
  · apply seqM_congr
    intro sg _
    cases sg with
    | other o => rfl
    | word w => exact (expandWord_stable t d p hg hd f f' (by omega) (by omega) w).1
  · intro h
    obtain ⟨sg, _, he⟩ := seqM_error_elim _ _ _ h
    cases sg with
    | other o => cases he
    | word w => exact (expandWord_stable t d p hg hd f f' (by omega) (by omega) w).2 he

/-- the result depends only on the set of names on the path -/
theorem expandWord_perm (t : STab) (f : Nat) : ∀ (p p' : List String), (∀ x, x ∈ p ↔ x ∈ p') → ∀ s,
    expandWord t f p s = expandWord t f p' s := by
  induction f using Nat.strongRecOn with
  | _ f ih =>
    intro p p' hpp s
    cases f with
    | zero => rw [expandWord_zero, expandWord_zero]
    | succ f =>
      cases hdf : isDef t s with
      | false => rw [expandWord_not_def _ _ _ _ hdf, expandWord_not_def _ _ _ _ hdf]
      | true =>
        obtain ⟨hc, v, hv⟩ := isDef_cases _ _ hdf
        by_cases hp : s ∈ p
        · rw [expandWord_cycle _ _ _ _ _ hc hv hp, expandWord_cycle _ _ _ _ _ hc hv ((hpp s).1 hp)]
        · rw [expandWord_step _ _ _ _ _ hc hv hp, expandWord_step _ _ _ _ _ hc hv (fun h => hp ((hpp s).2 h))]
          cases f with
          | zero => rw [expandSegs_zero, expandSegs_zero]
          | succ f =>
            rw [expandSegs_succ, expandSegs_succ]
            apply seqM_congr
            intro sg _
            cases sg with
            | other o => rfl
            | word w =>
              apply ih f (by omega)
              intro x
              simp only [List.mem_cons, hpp x]

theorem expandSegs_perm (t : STab) (f : Nat) (p p' : List String) (hpp : ∀ x, x ∈ p ↔ x ∈ p') (l : List Seg) :
    expandSegs t f p l = expandSegs t f p' l := by
  cases f with
  | zero => rw [expandSegs_zero, expandSegs_zero]
  | succ f =>
    rw [expandSegs_succ, expandSegs_succ]
    apply seqM_congr
    intro sg _
    cases sg with
    | other o => rfl
    | word w => exact expandWord_perm t f p p' hpp w


/-! ## the implementation: unfolding lemmas -/

theorem resolveImpl_zero (t : STab) (res : List String) (line : List Seg) :
    resolveImpl t 0 res line = .error .outOfFuel := by
  rw [resolveImpl]

theorem resolveImpl_loop_error (t : STab) (f : Nat) (res : List String) (line : List Seg) (e : Err)
    (h : resolveLoop t f res (candidates line) line [] = .error e) :
    resolveImpl t (f + 1) res line = .error e := by
  rw [resolveImpl, h]; rfl

theorem resolveImpl_loop_ok (t : STab) (f : Nat) (res : List String) (line line' : List Seg)
    (rep : List String) (h : resolveLoop t f res (candidates line) line [] = .ok (line', rep)) :
    resolveImpl t (f + 1) res line =
      if rep.isEmpty then .ok line' else resolveImpl t f (res ++ rep) line' := by
  rw [resolveImpl, h]; rfl

theorem resolveLoop_nil (t : STab) (f : Nat) (res : List String) (line : List Seg) (rep : List String) :
    resolveLoop t (f + 1) res [] line rep = .ok (line, rep) := by
  rw [resolveLoop]

theorem resolveLoop_undef (t : STab) (f : Nat) (res : List String) (s : String) (rest : List String)
    (line : List Seg) (rep : List String) (h : t.get? s = none) :
    resolveLoop t (f + 1) res (s :: rest) line rep = resolveLoop t (f + 1) res rest line rep := by
  rw [resolveLoop]; simp [h]

theorem resolveLoop_cycle (t : STab) (f : Nat) (res : List String) (s : String) (rest : List String)
    (line : List Seg) (rep : List String) (v : List Seg) (h : t.get? s = some v) (hp : s ∈ res) :
    resolveLoop t (f + 1) res (s :: rest) line rep = .error .symbolCycle := by
  rw [resolveLoop]; simp [h, hp]

theorem resolveLoop_step_error (t : STab) (f : Nat) (res : List String) (s : String) (rest : List String)
    (line : List Seg) (rep : List String) (v : List Seg) (e : Err) (h : t.get? s = some v) (hp : s ∉ res)
    (hr : resolveImpl t f (res ++ [s]) v = .error e) :
    resolveLoop t (f + 1) res (s :: rest) line rep = .error e := by
  rw [resolveLoop]; simp [h, hp, hr]; rfl

theorem resolveLoop_step_ok (t : STab) (f : Nat) (res : List String) (s : String) (rest : List String)
    (line : List Seg) (rep : List String) (v repl : List Seg) (h : t.get? s = some v) (hp : s ∉ res)
    (hr : resolveImpl t f (res ++ [s]) v = .ok repl) :
    resolveLoop t (f + 1) res (s :: rest) line rep =
      resolveLoop t (f + 1) res rest (replaceWord s repl line)
        (if rep.contains s then rep else rep ++ [s]) := by
  rw [resolveLoop]; simp [h, hp, hr]; rfl


/-! ## the candidate loop, abstractly -/

/-- the `for` loop with the recursive call abstracted to `W` and the `replaced` list dropped -/
def loopSpec (W : String → Except Err (List Seg)) : List String → List Seg → Except Err (List Seg)
  | [], line => .ok line
  | s :: rest, line =>
    match W s with
    | .error e => .error e
    | .ok repl => loopSpec W rest (replaceWord s repl line)

theorem replaceWord_self (s : String) (line : List Seg) : replaceWord s [.word s] line = line := by
  induction line with
  | nil => rfl
  | cons x rest ih =>
    cases x with
    | other o => simp only [replaceWord, ih]
    | word w =>
      simp only [replaceWord, ih]
      by_cases h : w = s
      · subst h; simp
      · simp [h]

theorem mem_candidates (line : List Seg) (s : String) :
    s ∈ candidates line ↔ Seg.word s ∈ line ∧ isCandidate s = true := by
  unfold candidates
  rw [List.mem_filterMap]
  constructor
  · rintro ⟨a, ha, hf⟩
    cases a with
    | other o => simp at hf
    | word w =>
      by_cases hc : isCandidate w = true
      · simp only [hc, if_true, Option.some.injEq] at hf
        subst hf; exact ⟨ha, hc⟩
      · simp [hc] at hf
  · rintro ⟨h1, h2⟩
    exact ⟨.word s, h1, by simp [h2]⟩

/-- the real loop follows the abstract loop -/
theorem resolveLoop_spec (t : STab) (f : Nat) (res : List String) (W : String → Except Err (List Seg))
    (hW : ∀ s, isCandidate s = true → match t.get? s with
      | none => W s = .ok [.word s]
      | some v => if s ∈ res then W s = .error .symbolCycle else resolveImpl t f (res ++ [s]) v = W s) :
    ∀ (cands : List String), (∀ s ∈ cands, isCandidate s = true) → ∀ (line : List Seg) (rep : List String),
      ∃ rep', resolveLoop t (f + 1) res cands line rep =
        (loopSpec W cands line).map (fun x => (x, rep')) := by
  intro cands
  induction cands with
  | nil => intro _ line rep; exact ⟨rep, by rw [resolveLoop_nil]; rfl⟩
  | cons s rest ih =>
    intro hcs line rep
    have h := hW s (hcs s (List.mem_cons_self ..))
    have ih := ih (fun x hx => hcs x (List.mem_cons_of_mem _ hx))
    cases hg : t.get? s with
    | none =>
      rw [hg] at h
      obtain ⟨rep', hr⟩ := ih line rep
      refine ⟨rep', ?_⟩
      rw [resolveLoop_undef _ _ _ _ _ _ _ hg, hr]
      simp only [loopSpec, h, replaceWord_self]
    | some v =>
      rw [hg] at h
      by_cases hp : s ∈ res
      · simp only [hp, if_true] at h
        refine ⟨rep, ?_⟩
        rw [resolveLoop_cycle _ _ _ _ _ _ _ _ hg hp]
        simp only [loopSpec, h]; rfl
      · simp only [hp, if_false] at h
        cases hw : W s with
        | error e =>
          rw [hw] at h
          refine ⟨rep, ?_⟩
          rw [resolveLoop_step_error _ _ _ _ _ _ _ _ _ hg hp h]
          simp only [loopSpec, hw]; rfl
        | ok repl =>
          rw [hw] at h
          obtain ⟨rep', hr⟩ := ih (replaceWord s repl line) (if rep.contains s then rep else rep ++ [s])
          refine ⟨rep', ?_⟩
          rw [resolveLoop_step_ok _ _ _ _ _ _ _ _ _ hg hp h, hr]
          simp only [loopSpec, hw]

theorem seqM_replaceWord (g : Seg → Except Err (List Seg)) (s : String) (repl : List Seg)
    (h1 : g (.word s) = .ok repl) (h2 : seqM g repl = .ok repl) (line : List Seg) :
    seqM g (replaceWord s repl line) = seqM g line := by
  induction line with
  | nil => rfl
  | cons x rest ih =>
    cases x with
    | other o => simp only [replaceWord, seqM, ih]
    | word w =>
      by_cases h : w = s
      · subst h
        simp only [replaceWord, beq_self_eq_true, if_true]
        rw [seqM_append, h2, ih, seqM_cons_ok _ _ _ _ h1]
        cases seqM g rest <;> rfl
      · simp only [replaceWord, beq_iff_eq, h, if_false, List.cons_append, List.nil_append, seqM, ih]

theorem mem_replaceWord (s : String) (repl line : List Seg) (x : Seg) (h : x ∈ replaceWord s repl line) :
    x ∈ repl ∨ (x ∈ line ∧ x ≠ .word s) := by
  induction line with
  | nil => cases h
  | cons y rest ih =>
    cases y with
    | other o =>
      simp only [replaceWord, List.mem_cons] at h
      rcases h with rfl | h
      · exact .inr ⟨List.mem_cons_self .., by simp⟩
      · rcases ih h with h | h
        · exact .inl h
        · exact .inr ⟨List.mem_cons_of_mem _ h.1, h.2⟩
    | word w =>
      simp only [replaceWord, List.mem_append] at h
      rcases h with h | h
      · by_cases hw : w = s
        · subst hw; simp only [beq_self_eq_true, if_true] at h; exact .inl h
        · simp only [beq_iff_eq, hw, if_false, List.mem_singleton] at h
          subst h
          exact .inr ⟨List.mem_cons_self .., by simp [hw]⟩
      · rcases ih h with h | h
        · exact .inl h
        · exact .inr ⟨List.mem_cons_of_mem _ h.1, h.2⟩

def isOkB (r : Except Err (List Seg)) : Bool := match r with | .ok _ => true | .error _ => false
theorem isOkB_ok (r : List Seg) : isOkB (.ok r) = true := rfl
theorem isOkB_error (e : Err) : isOkB (.error e) = false := rfl

/-- the abstract loop computes the segment-wise expansion -/
theorem loopSpec_eq (t : STab) (W : String → Except Err (List Seg))
    (W1 : ∀ s e, W s = .error e → e = .symbolCycle)
    (W2 : ∀ s r, W s = .ok r → ∀ x ∈ r, segDef t x = false)
    (W3 : ∀ s, isDef t s = false → W s = .ok [.word s]) :
    ∀ (cands : List String) (line : List Seg),
      (∀ w, Seg.word w ∈ line → isDef t w = true → w ∈ cands) →
      loopSpec W cands line =
        if cands.all (fun s => isOkB (W s)) then seqM (wordStep W) line else .error .symbolCycle := by
  have hid : ∀ l : List Seg, (∀ x ∈ l, segDef t x = false) → seqM (wordStep W) l = .ok l := by
    intro l hl
    apply seqM_id
    intro x hx
    cases x with
    | other o => rfl
    | word w => exact W3 w (hl _ hx)
  intro cands
  induction cands with
  | nil =>
    intro line hl
    simp only [loopSpec, List.all_nil, if_true]
    rw [hid]
    intro x hx
    cases x with
    | other o => rfl
    | word w =>
      cases hd : isDef t w with
      | false => exact hd
      | true => exact absurd (hl w hx hd) (by simp)
  | cons s rest ih =>
    intro line hl
    cases hw : W s with
    | error e =>
      have := W1 s e hw
      subst this
      simp only [loopSpec, hw, List.all_cons, isOkB_error, Bool.false_and]
      rfl
    | ok repl =>
      have hnd := W2 s repl hw
      simp only [loopSpec, hw, List.all_cons, isOkB_ok, Bool.true_and]
      rw [ih, seqM_replaceWord _ _ _ hw (hid repl hnd)]
      intro w hm hd
      rcases mem_replaceWord _ _ _ _ hm with h | h
      · rw [show isDef t w = segDef t (.word w) from rfl, hnd _ h] at hd; cases hd
      · have := hl w h.1 hd
        rcases List.mem_cons.1 this with rfl | h'
        · exact absurd rfl h.2
        · exact h'


/-! ## the re-scan finds nothing -/

theorem resolveLoop_noop (t : STab) (f : Nat) (res : List String) (line : List Seg) (rep : List String) :
    ∀ (cands : List String), (∀ s ∈ cands, t.get? s = none) →
      resolveLoop t (f + 1) res cands line rep = .ok (line, rep) := by
  intro cands
  induction cands with
  | nil => intro _; exact resolveLoop_nil ..
  | cons s rest ih =>
    intro h
    rw [resolveLoop_undef _ _ _ _ _ _ _ (h s (List.mem_cons_self ..))]
    exact ih (fun x hx => h x (List.mem_cons_of_mem _ hx))

theorem resolveImpl_noop (t : STab) (f : Nat) (res : List String) (line : List Seg)
    (h : ∀ x ∈ line, segDef t x = false) : resolveImpl t (f + 2) res line = .ok line := by
  have hl : resolveLoop t (f + 1) res (candidates line) line [] = .ok (line, []) := by
    apply resolveLoop_noop
    intro s hs
    obtain ⟨hm, hc⟩ := (mem_candidates _ _).1 hs
    have := h _ hm
    simp only [segDef, isDef, hc, Bool.true_and] at this
    cases hg : t.get? s with
    | none => rfl
    | some v => rw [hg] at this; simp at this
  rw [resolveImpl_loop_ok _ _ _ _ _ _ hl]; rfl

theorem GoodPath.snoc {t : STab} {p : List String} (h : GoodPath t p) (s : String) (v : List Seg)
    (hv : t.get? s = some v) (hp : s ∉ p) : GoodPath t (p ++ [s]) := by
  refine ⟨?_, ?_⟩
  · rw [List.nodup_append]
    refine ⟨h.1, by simp, ?_⟩
    intro a ha b hb
    simp only [List.mem_singleton] at hb
    subst hb
    exact fun hab => hp (hab ▸ ha)
  · intro x hx
    rcases List.mem_append.1 hx with hx | hx
    · exact h.2 x hx
    · simp only [List.mem_singleton] at hx; subst hx; rw [hv]; rfl

/-- main refinement: with enough fuel the implementation computes the specification -/
theorem resolveImpl_eq_expandSegs (t : STab) : ∀ (f : Nat) (res : List String), GoodPath t res →
    2 * (t.length - res.length) + 3 ≤ f → ∀ line,
      resolveImpl t f res line = expandSegs t (2 * (t.length - res.length) + 2) res line := by
  intro f
  induction f using Nat.strongRecOn with
  | _ f ih =>
    intro res hg hf line
    obtain ⟨f, rfl⟩ : ∃ k, f = k + 1 + 1 := ⟨f - 2, by omega⟩
    generalize hd : t.length - res.length = d at hf ⊢
    let W := expandWord t (2 * d + 1) res
    have hst := fun s => expandWord_stable t d res hg (by omega) (2 * d + 1) (2 * d + 1) (by omega) (by omega) s
    have W1 : ∀ s e, W s = .error e → e = .symbolCycle := by
      intro s e h
      rcases expandWord_kinds _ _ _ _ _ h with rfl | rfl
      · exact absurd h (hst s).2
      · rfl
    have W2 : ∀ s r, W s = .ok r → ∀ x ∈ r, segDef t x = false := fun s r h => expandWord_fix _ _ _ _ _ h
    have W3 : ∀ s, isDef t s = false → W s = .ok [.word s] := fun s h => expandWord_not_def _ _ _ _ h
    -- the recursive calls
    have hW : ∀ s, isCandidate s = true → match t.get? s with
        | none => W s = .ok [.word s]
        | some v => if s ∈ res then W s = .error .symbolCycle
            else resolveImpl t f (res ++ [s]) v = W s := by
      intro s hc
      cases hgs : t.get? s with
      | none => exact expandWord_undef _ _ _ _ hgs
      | some v =>
        by_cases hp : s ∈ res
        · simp only [hp, if_true]
          exact expandWord_cycle _ _ _ _ _ hc hgs hp
        · simp only [hp, if_false]
          have hg' := hg.snoc s v hgs hp
          have hlen := hg'.length_le
          simp only [List.length_append, List.length_singleton] at hlen
          have hd' : t.length - (res ++ [s]).length = d - 1 := by
            simp only [List.length_append, List.length_singleton]; omega
          have := ih f (by omega) (res ++ [s]) hg' (by rw [hd']; omega) v
          rw [this, hd', show 2 * (d - 1) + 2 = 2 * d by omega]
          show _ = expandWord t (2 * d + 1) res s
          rw [expandWord_step _ _ _ _ _ hc hgs hp]
          apply expandSegs_perm
          intro x; simp only [List.mem_append, List.mem_cons, List.not_mem_nil, or_false]
          exact Or.comm
    obtain ⟨rep', hloop⟩ := resolveLoop_spec t f res W hW (candidates line)
      (fun s hs => ((mem_candidates _ _).1 hs).2) line []
    have hspec := loopSpec_eq t W W1 W2 W3 (candidates line) line
      (fun w hm hdw => (mem_candidates _ _).2 ⟨hm, (isDef_cases _ _ hdw).1⟩)
    have hR : expandSegs t (2 * d + 2) res line = seqM (wordStep W) line := expandSegs_succ ..
    have hspec' : loopSpec W (candidates line) line = seqM (wordStep W) line := by
      rw [hspec]
      split
      · rfl
      · rename_i hall
        rw [Bool.not_eq_true, List.all_eq_false] at hall
        obtain ⟨s, hs, hbad⟩ := hall
        cases hws : W s with
        | ok r => rw [hws] at hbad; exact absurd (isOkB_ok r) hbad
        | error e =>
          obtain ⟨e', he'⟩ := seqM_error_of_mem (wordStep W) line (.word s) e
            ((mem_candidates _ _).1 hs).1 hws
          obtain ⟨sg, _, hsg⟩ := seqM_error_elim _ _ _ he'
          cases sg with
          | other o => cases hsg
          | word w => rw [he', W1 w e' hsg]
    rw [hspec', ← hR] at hloop
    cases hres : expandSegs t (2 * d + 2) res line with
    | error e =>
      rw [hres] at hloop
      exact resolveImpl_loop_error _ _ _ _ _ hloop
    | ok line' =>
      rw [hres] at hloop
      rw [resolveImpl_loop_ok _ _ _ _ _ _ hloop]
      split
      · rfl
      · obtain ⟨f, rfl⟩ : ∃ k, f = k + 1 := ⟨f - 1, by omega⟩
        exact resolveImpl_noop _ _ _ _ (expandSegs_fix _ _ _ _ _ hres)


/-! ## segmentation -/

/-- characters collected in the current run -/
def pendingChars : Option (Bool × List Char) → List Char
  | none => []
  | some (_, cur) => cur.reverse

theorem unsegment_snoc (l : List Seg) (s : Seg) : unsegment (l ++ [s]) = unsegment l ++ s.text := by
  simp only [unsegment, List.map_append, String.join_append, List.map_cons, List.map_nil,
    String.join_cons, String.join_nil, String.append_empty]

theorem unsegment_segmentAux (cs : List Char) : ∀ (st : Option (Bool × List Char)) (acc : List Seg),
    unsegment (segmentAux cs st acc) = unsegment acc.reverse ++ String.ofList (pendingChars st ++ cs) := by
  induction cs with
  | nil =>
    intro st acc
    cases st with
    | none => simp [segmentAux, pendingChars]
    | some wc =>
      obtain ⟨w, cur⟩ := wc
      simp only [segmentAux, List.reverse_cons, unsegment_snoc, pendingChars, List.append_nil]
      cases w <;> rfl
  | cons c rest ih =>
    intro st acc
    cases st with
    | none =>
      simp only [segmentAux, ih, pendingChars, List.reverse_cons, List.reverse_nil, List.nil_append,
        List.cons_append]
    | some wc =>
      obtain ⟨w, cur⟩ := wc
      simp only [segmentAux]
      split
      · simp only [ih, pendingChars, List.reverse_cons, List.append_assoc, List.cons_append,
          List.nil_append]
      · simp only [ih, pendingChars, List.reverse_cons, unsegment_snoc, List.reverse_nil,
          List.nil_append, List.cons_append, String.append_assoc]
        rw [String.ofList_append]
        cases w <;> rfl

/-- well-formed segment: non-empty and homogeneous -/
def SegOK : Seg → Prop
  | .word w => w.toList ≠ [] ∧ w.toList.all isWordChar = true
  | .other o => o.toList ≠ [] ∧ o.toList.all (fun c => !isWordChar c) = true

theorem segOK_mk (w : Bool) (cur : List Char) (hne : cur ≠ []) (h : ∀ c ∈ cur, isWordChar c = w) :
    SegOK (if w then Seg.word (String.ofList cur.reverse) else Seg.other (String.ofList cur.reverse)) := by
  cases w with
  | true =>
    simp only [if_true, SegOK, String.toList_ofList, List.all_eq_true, List.mem_reverse]
    exact ⟨by simpa using hne, h⟩
  | false =>
    simp only [Bool.false_eq_true, if_false, SegOK, String.toList_ofList, List.all_eq_true, List.mem_reverse]
    exact ⟨by simpa using hne, fun c hc => by rw [h c hc]; rfl⟩

theorem segmentAux_ok (cs : List Char) : ∀ (st : Option (Bool × List Char)) (acc : List Seg),
    (∀ s ∈ acc, SegOK s) →
    (∀ w cur, st = some (w, cur) → cur ≠ [] ∧ ∀ c ∈ cur, isWordChar c = w) →
    ∀ s ∈ segmentAux cs st acc, SegOK s := by
  induction cs with
  | nil =>
    intro st acc hacc hst
    cases st with
    | none => simpa [segmentAux] using hacc
    | some wc =>
      obtain ⟨w, cur⟩ := wc
      obtain ⟨hne, hc⟩ := hst w cur rfl
      simp only [segmentAux, List.reverse_cons, List.mem_append, List.mem_reverse, List.mem_singleton]
      rintro s (hs | rfl)
      · exact hacc s hs
      · exact segOK_mk w cur hne hc
  | cons c rest ih =>
    intro st acc hacc hst
    cases st with
    | none =>
      simp only [segmentAux]
      apply ih _ _ hacc
      intro w cur h
      simp only [Option.some.injEq, Prod.mk.injEq] at h
      obtain ⟨rfl, rfl⟩ := h
      exact ⟨by simp, by simp⟩
    | some wc =>
      obtain ⟨w, cur⟩ := wc
      obtain ⟨hne, hc⟩ := hst w cur rfl
      simp only [segmentAux]
      split
      · rename_i heq
        apply ih _ _ hacc
        intro w' cur' h
        simp only [Option.some.injEq, Prod.mk.injEq] at h
        obtain ⟨rfl, rfl⟩ := h
        refine ⟨by simp, ?_⟩
        intro x hx
        rcases List.mem_cons.1 hx with rfl | hx
        · simpa using heq
        · exact hc x hx
      · apply ih
        · intro s hs
          rcases List.mem_cons.1 hs with rfl | hs
          · exact segOK_mk w cur hne hc
          · exact hacc s hs
        · intro w' cur' h
          simp only [Option.some.injEq, Prod.mk.injEq] at h
          obtain ⟨rfl, rfl⟩ := h
          exact ⟨by simp, by simp⟩

end BV
