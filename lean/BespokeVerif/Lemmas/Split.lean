/-
  Helper lemmas for the comma splitter (`Model/Split.lean`).  Core Lean only.
-/
import BespokeVerif.Model.Split
namespace BV
namespace SplitLemmas

/-! ### the splitter, one step at a time -/

theorem aux_nil (cur : List Char) : splitCommasAux cur [] = [cur.reverse] := by
  simp [splitCommasAux]

theorem aux_quoted (cur : List Char) (c : Char) (rest : List Char) :
    splitCommasAux cur ('\'' :: c :: '\'' :: rest) = splitCommasAux ('\'' :: c :: '\'' :: cur) rest := by
  simp [splitCommasAux]

theorem aux_comma (cur rest : List Char) :
    splitCommasAux cur (',' :: rest) = cur.reverse :: splitCommasAux [] rest := by
  rw [splitCommasAux]

/-- a character that is neither comma nor quote joins the current item -/
theorem aux_other (cur : List Char) (c : Char) (rest : List Char) (hc : c ≠ ',') (hq : c ≠ '\'') :
    splitCommasAux cur (c :: rest) = splitCommasAux (c :: cur) rest := by
  rw [splitCommasAux]
  · intro c' rest' h _
    exact hq h
  · intro h
    exact hc h

/-- the splitter always returns at least one item -/
theorem aux_ne_nil (cur s : List Char) : splitCommasAux cur s ≠ [] := by
  fun_induction splitCommasAux cur s <;> simp_all

/-! ### joining -/

theorem joinCommas_cons (x : List Char) (l : List (List Char)) (h : l ≠ []) :
    joinCommas (x :: l) = x ++ ',' :: joinCommas l := by
  cases l with
  | nil => exact absurd rfl h
  | cons y rest => rfl

theorem join_aux (cur s : List Char) : joinCommas (splitCommasAux cur s) = cur.reverse ++ s := by
  fun_induction splitCommasAux cur s with
  | case1 cur => simp [joinCommas]
  | case2 cur c rest ih => simp [ih]
  | case3 cur rest ih =>
    rw [joinCommas_cons _ _ (aux_ne_nil _ _), ih]
    simp
  | case4 cur c rest _ _ ih => simp [ih]

theorem splitCommas_join (s : List Char) : joinCommas (splitCommas s) = s := by
  simp [splitCommas, join_aux]

/-! ### no quotes: plain splitting -/

/-- put `p` in front of the first item -/
def consHead (p : List Char) : List (List Char) → List (List Char)
  | [] => [p]
  | x :: xs => (p ++ x) :: xs

theorem consHead_nil (l : List (List Char)) (h : l ≠ []) : consHead [] l = l := by
  cases l with
  | nil => exact absurd rfl h
  | cons x xs => rfl

theorem consHead_consHead (p q : List Char) (l : List (List Char)) :
    consHead p (consHead q l) = consHead (p ++ q) l := by
  cases l <;> simp [consHead]

theorem splitPlain_ne_nil (s : List Char) : splitPlain s ≠ [] := by
  fun_induction splitPlain s <;> simp_all

theorem splitPlain_comma (rest : List Char) : splitPlain (',' :: rest) = [] :: splitPlain rest := by
  simp [splitPlain]

theorem splitPlain_other (c : Char) (rest : List Char) (hc : c ≠ ',') :
    splitPlain (c :: rest) = consHead [c] (splitPlain rest) := by
  rw [splitPlain]
  · cases splitPlain rest <;> rfl
  · intro h; exact hc h

theorem no_quote_aux (cur s : List Char) (h : '\'' ∉ s) :
    splitCommasAux cur s = consHead cur.reverse (splitPlain s) := by
  induction s generalizing cur with
  | nil => simp [aux_nil, splitPlain, consHead]
  | cons c rest ih =>
    have hq : c ≠ '\'' := fun e => h (by simp [e])
    have hr : '\'' ∉ rest := fun e => h (by simp [e])
    by_cases hc : c = ','
    · subst hc
      rw [aux_comma, splitPlain_comma, ih [] hr, List.reverse_nil, consHead_nil _ (splitPlain_ne_nil rest)]
      simp [consHead]
    · rw [aux_other _ _ _ hc hq, splitPlain_other _ _ hc, ih _ hr, consHead_consHead]
      simp

theorem splitCommas_no_quote (s : List Char) (h : '\'' ∉ s) : splitCommas s = splitPlain s := by
  rw [splitCommas, no_quote_aux [] s h]
  exact consHead_nil _ (splitPlain_ne_nil s)

/-! ### well-tokenised items -/

/-- the splitter steps over one well-tokenised item without ending the current value -/
theorem aux_item (it : List QSeg) (hok : ∀ sg ∈ it, sg.ok = true) (cur rest : List Char) :
    splitCommasAux cur (renderItem it ++ rest) =
      splitCommasAux ((renderItem it).reverse ++ cur) rest := by
  induction it generalizing cur with
  | nil => simp [renderItem]
  | cons sg it ih =>
    have hsg := hok sg (by simp)
    have hit : ∀ sg ∈ it, sg.ok = true := fun s hs => hok s (by simp [hs])
    have hr : renderItem (sg :: it) = sg.render ++ renderItem it := by simp [renderItem]
    cases sg with
    | quoted c =>
      rw [hr]
      simp only [QSeg.render, List.cons_append, List.nil_append]
      rw [aux_quoted, ih hit]
      simp
    | plain c =>
      have hc : c ≠ ',' ∧ c ≠ '\'' := by simpa [QSeg.ok] using hsg
      rw [hr]
      simp only [QSeg.render, List.cons_append, List.nil_append]
      rw [aux_other _ _ _ hc.1 hc.2, ih hit]
      simp

theorem items_aux (items : List (List QSeg)) (hne : items ≠ [])
    (hok : ∀ it ∈ items, ∀ sg ∈ it, sg.ok = true) (cur : List Char) :
    splitCommasAux cur (joinCommas (items.map renderItem)) =
      consHead cur.reverse (items.map renderItem) := by
  induction items generalizing cur with
  | nil => exact absurd rfl hne
  | cons it rest ih =>
    have hit := hok it (by simp)
    cases rest with
    | nil =>
      have := aux_item it hit cur []
      simp only [List.append_nil] at this
      simp [joinCommas, this, aux_nil, consHead]
    | cons it2 rest =>
      have hrest : ∀ i ∈ it2 :: rest, ∀ sg ∈ i, sg.ok = true :=
        fun i hi => hok i (List.mem_cons_of_mem _ hi)
      have h2 := ih (by simp) hrest []
      simp only [List.map_cons] at h2 ⊢
      rw [joinCommas, aux_item it hit, aux_comma, h2]
      simp [consHead]

theorem splitCommas_items (items : List (List QSeg)) (hne : items ≠ [])
    (hok : ∀ it ∈ items, ∀ sg ∈ it, sg.ok = true) :
    splitCommas (joinCommas (items.map renderItem)) = items.map renderItem := by
  rw [splitCommas, items_aux items hne hok []]
  exact consHead_nil _ (by simpa using hne)

theorem splitCommas_length (items : List (List QSeg)) (hne : items ≠ [])
    (hok : ∀ it ∈ items, ∀ sg ∈ it, sg.ok = true) :
    (splitCommas (joinCommas (items.map renderItem))).length = items.length := by
  rw [splitCommas_items items hne hok, List.length_map]

end SplitLemmas
end BV
