/-
  Line-protocol driver: one JSON request per input line, one JSON reply per output line.
  Executes the *same* definitions the theorems in `BespokeVerif/Props` are about.
-/
import Lean.Data.Json
import BespokeVerif.Model.Basic
import BespokeVerif.Model.Bits
import BespokeVerif.Model.Constraint
import BespokeVerif.Model.Instr
import BespokeVerif.Model.Expr
import BespokeVerif.Model.Layout
import BespokeVerif.Model.Parse
import BespokeVerif.Model.Subst
import BespokeVerif.Model.Output
import BespokeVerif.Model.Pipeline
import BespokeVerif.Model.Listing
import BespokeVerif.Model.Select
import BespokeVerif.Model.Macro
import BespokeVerif.Model.Config
import BespokeVerif.Model.Scan
import BespokeVerif.Model.Regex
import BespokeVerif.Model.Split
open Lean BV

namespace Drv

abbrev R := Except String

def fld (j : Json) (k : String) : R Json := j.getObjVal? k
def fldOpt (j : Json) (k : String) : Option Json :=
  match j.getObjVal? k with
  | .ok .null => none
  | .ok v => some v
  | .error _ => none
def int (j : Json) (k : String) : R Int := do (← fld j k).getInt?
def nat (j : Json) (k : String) : R Nat := do (← fld j k).getNat?
def str (j : Json) (k : String) : R String := do (← fld j k).getStr?
def bool (j : Json) (k : String) : R Bool := do (← fld j k).getBool?
def boolD (j : Json) (k : String) (d : Bool) : Bool :=
  match fldOpt j k with | some v => (v.getBool?.toOption.getD d) | none => d
def arr (j : Json) (k : String) : R (Array Json) := do (← fld j k).getArr?
def intD (j : Json) (k : String) (d : Int) : Int :=
  match fldOpt j k with | some v => (v.getInt?.toOption.getD d) | none => d

def jNats (l : List Nat) : Json := Json.arr (l.map (fun n => Json.num (JsonNumber.fromNat n))).toArray
def jInt (i : Int) : Json := Json.num (JsonNumber.fromInt i)
def jErr (e : Err) : Json := Json.mkObj [("err", Json.str e.name)]

def parseField (j : Json) : R Field := do
  return { value := ← int j "v", size := ← nat j "n", align := boolD j "align" false,
           little := boolD j "little" false }

def jField (f : Field) : Json :=
  Json.mkObj [("v", jInt f.value), ("n", Json.num (JsonNumber.fromNat f.size)), ("align", Json.bool f.align),
              ("little", Json.bool f.little)]

def optInt (j : Json) (k : String) : Option Int :=
  match fldOpt j k with | some v => v.getInt?.toOption | none => none

def parseSrc (j : Json) : R ValSrc := do
  let k ← str j "k"
  match k with
  | "plain" => return .plain (← int j "v")
  | "ranged" => return .ranged (← int j "v") (optInt j "min") (optInt j "max")
  | "zone" => return .inZone (← int j "v") (← int j "zs") (← int j "ze")
  | "enum" => do
    let d ← (← arr j "dict").toList.mapM fun e => do
      let a ← e.getArr?
      if a.size ≠ 2 then throw "dict entry" else
      pure ((← a[0]!.getInt?), (← a[1]!.getInt?))
    return .enum (← int j "v") d
  | "rel" => return .rel (← int j "t") (boolD j "fromEnd" false) (optInt j "min") (optInt j "max")
                 (← int j "zs") (← int j "ze")
  | "sliced" => return .sliced (← int j "v") (← int j "zs") (← int j "ze")
  | _ => throw s!"unknown src kind {k}"

def parseSrcField (j : Json) : R SrcField := do
  let src ← match fldOpt j "src" with
    | some s => parseSrc s
    | none => do pure (.plain (← int j "v"))
  return { src := src, size := ← nat j "n", align := boolD j "align" false, little := boolD j "little" false }

def parseSrcOp (j : Json) : R SrcOp := do
  let code ← match fldOpt j "code" with
    | none => pure none
    | some c => do
      let f ← parseSrcField c
      let pos ← str c "pos"
      pure (some (f, if pos == "prefix" then CodePos.prefix else CodePos.suffix))
  let arg ← match fldOpt j "arg" with
    | none => pure none
    | some a => do pure (some (← parseSrcField a))
  return { code := code, arg := arg }

def jBytesRes : Except Err (Option (List Nat)) → Json
  | .error e => jErr e
  | .ok none => Json.mkObj [("err", Json.str "sizeMismatch")]
  | .ok (some bs) => Json.mkObj [("bytes", jNats bs)]

def jSpecRes : Option (List Nat) → Json
  | none => Json.mkObj [("err", Json.str "rejected")]
  | some bs => Json.mkObj [("bytes", jNats bs)]

/-- op "bits": instruction encoding from structured parts -/
def opBits (j : Json) : R Json := do
  let opcode ← parseField (← fld j "opcode")
  let sfx ← match fldOpt j "suffix" with
    | none => pure none
    | some s => do pure (some (← parseField s))
  let ops ← (← arr j "ops").toList.mapM parseSrcOp
  let revArgs := boolD j "revArgs" false
  let revCodes := boolD j "revCodes" false
  let addr := intD j "addr" 0
  let impl := encodeInstr addr ops opcode sfx revArgs revCodes
  let spec := specEncodeInstr addr ops opcode sfx revArgs revCodes
  return Json.mkObj [("impl", jBytesRes impl), ("spec", jSpecRes spec),
    ("size", Json.num (JsonNumber.fromNat (instrSize ops opcode sfx revArgs revCodes)))]

/-- op "fields": raw field list (auxiliary probe of PackedBits) -/
def opFields (j : Json) : R Json := do
  let fs ← (← arr j "fields").toList.mapM parseField
  let allFit := fs.all fun f => decide (Fits f.value f.size)
  let spec : Json := if allFit then Json.mkObj [("bytes", jNats (specBytes fs))] else jErr .fieldOverflow
  return Json.mkObj [("impl", jBytesRes (getBytes fs)), ("spec", spec)]

/-- op "chunks": the rows the listing spreads the bytes of one statement over, and what the row decoder makes of them -/
def opChunks (j : Json) : R Json := do
  let bs ← (← arr j "bs").toList.mapM fun b => b.getNat?
  let k ← nat j "k"
  let rows := chunkRows k bs.length bs
  let enc := encListingLine k { lineNo := 1, addr := 0, bytes := bs }
  let merged := mergePRows enc []
  let natArr (l : List Nat) : Json := Json.arr (l.map fun (n : Nat) => Json.num n).toArray
  return Json.mkObj [("rows", Json.arr (rows.map natArr).toArray),
                     ("merged", Json.arr (merged.map fun r => natArr r.bytes).toArray)]

/-- op "split": comma splitting of a value / operand list -/
def opSplit (j : Json) : R Json := do
  let text ← str j "text"
  return Json.mkObj [("impl", Json.arr ((splitCommas text.toList).map fun it => Json.str (String.ofList it)).toArray),
                     ("spec", Json.arr ((splitPlain text.toList).map fun it => Json.str (String.ofList it)).toArray)]

def parseEnv (j : Json) : R (String → Option Int) := do
  match fldOpt j "env" with
  | none => pure fun _ => none
  | some e => do
    let l ← e.getArr?
    let kvs ← l.toList.mapM fun kv => do
      let a ← kv.getArr?
      if a.size ≠ 2 then throw "env entry" else pure ((← a[0]!.getStr?), (← a[1]!.getInt?))
    pure fun s => (kvs.find? (·.1 == s)).map (·.2)

/-- op "expr": text → value (lexer + parser + evaluator) -/
def opExpr (j : Json) : R Json := do
  let text ← str j "text"
  let env ← parseEnv j
  match evalText env text.toList with
  | .ok v => return Json.mkObj [("value", jInt v)]
  | .error e => return jErr e

def binOpOf (s : String) : R BinOp :=
  match s with
  | "+" => pure .add | "-" => pure .sub | "*" => pure .mul | "/" => pure .div | "%" => pure .mod
  | "<<" => pure .shl | ">>" => pure .shr | "&" => pure .band | "|" => pure .bor | "^" => pure .bxor
  | _ => throw s!"binop {s}"

/-- expression trees: ["num",n] ["label",s] ["neg",e] ["byte",k,e] ["bin",op,l,r] ["char",c] -/
partial def parseE (j : Json) : R E := do
  let a ← j.getArr?
  let tag ← a[0]!.getStr?
  match tag with
  | "num" => return .num (← a[1]!.getInt?)
  | "char" => do let s ← a[1]!.getStr?; return .num ((s.toList.head?.getD ' ').toNat)
  | "label" => return .label (← a[1]!.getStr?)
  | "neg" => return .neg (← parseE a[1]!)
  | "byte" => return .byteN (← a[1]!.getNat?) (← parseE a[2]!)
  | "bin" => return .bin (← binOpOf (← a[1]!.getStr?)) (← parseE a[2]!) (← parseE a[3]!)
  | _ => throw s!"expr tag {tag}"

def optStr (j : Json) (k : String) : Option String :=
  match fldOpt j k with | some v => v.getStr?.toOption | none => none

def cmpOf (s : String) : R CmpOp :=
  match s with
  | "==" => pure .eq | "!=" => pure .ne | ">" => pure .gt | ">=" => pure .ge | "<" => pure .lt | "<=" => pure .le
  | _ => throw s!"cmp {s}"

def parseCondExp (j : Json) : R CondExp := do
  return { lhs := ← parseE (← fld j "lhs"), op := ← cmpOf (← str j "op"), rhs := ← parseE (← fld j "rhs") }

def parseSymVal (j : Json) : R SymVal :=
  match fldOpt j "v" with
  | none => pure .empty
  | some v => match v.getInt? with
    | .ok n => pure (.num n)
    | .error _ => do pure (.word (← v.getStr?))

def parseCondDir (j : Json) : R CondDir := do
  let d ← str j "d"
  match d with
  | "if" => return .ifc (← parseCondExp (← fld j "c"))
  | "elif" => return .elifc (← parseCondExp (← fld j "c"))
  | "else" => return .elsec
  | "endif" => return .endif
  | "ifdef" => return .ifdef (← str j "s")
  | "ifndef" => return .ifndef (← str j "s")
  | _ => throw s!"cond dir {d}"

def parseCodeCfg (j : Json) : R CodeCfg := do
  let pos := match optStr j "pos" with | some "prefix" => CodePos.prefix | _ => CodePos.suffix
  return { value := ← int j "v", size := ← nat j "n", pos := pos }

def optCode (j : Json) : R (Option CodeCfg) :=
  match fldOpt j "code" with | none => pure none | some c => do pure (some (← parseCodeCfg c))

def parseArgCfg (j : Json) : R ArgCfg := do
  return { size := ← nat j "n", align := boolD j "align" false, little := boolD j "little" false }

def parseIntDict (j : Json) : R (List (Int × Int)) := do
  (← j.getArr?).toList.mapM fun e => do let a ← e.getArr?; pure ((← a[0]!.getInt?), (← a[1]!.getInt?))

def parseStrDict (j : Json) : R (List (String × Int)) := do
  (← j.getArr?).toList.mapM fun e => do let a ← e.getArr?; pure ((← a[0]!.getStr?), (← a[1]!.getInt?))

def posOf (j : Json) : CodePos := match optStr j "pos" with | some "prefix" => .prefix | _ => .suffix

def parseIdxCfg (j : Json) : R IdxCfg := do
  let t ← str j "t"
  match t with
  | "numeric" => return .numeric (← optCode j) (← parseArgCfg (← fld j "arg"))
  | "register" => return .register (← str j "r") (← optCode j)
  | "numeric_bytecode" => return .numBytecode (← nat j "n") (← int j "min") (← int j "max")
  | _ => throw s!"idx cfg {t}"

def parseIdxList (j : Json) : R (List (String × IdxCfg)) := do
  (← (← fld j "idx").getArr?).toList.mapM fun e => do pure ((← str e "id"), (← parseIdxCfg e))

def parseOperandCfg (j : Json) : R OperandCfg := do
  let t ← str j "t"
  match t with
  | "numeric" => return .numeric (← optCode j) (← parseArgCfg (← fld j "arg")) (boolD j "va" false)
  | "address" => return .address (← optCode j) (← parseArgCfg (← fld j "arg")) (← int j "zs") (← int j "ze") (boolD j "sliced" false)
  | "relative_address" => return .relAddr (← optCode j) (← parseArgCfg (← fld j "arg")) (optInt j "min") (optInt j "max")
                            (boolD j "fromEnd" false) (boolD j "curly" false)
  | "numeric_bytecode" => return .numBytecode (← nat j "n") (posOf j) (← int j "min") (← int j "max")
  | "numeric_enumeration" => do
    let code ← match fldOpt j "code" with
      | none => pure none
      | some c => do pure (some ((← nat c "n"), posOf c, (← parseIntDict (← fld c "dict"))))
    let arg ← match fldOpt j "arg" with
      | none => pure none
      | some a => do pure (some ((← parseArgCfg a), (← parseIntDict (← fld a "dict"))))
    return .numEnum code arg
  | "enumeration" => do
    let code ← match fldOpt j "code" with
      | none => pure none
      | some c => do pure (some ((← nat c "n"), posOf c, (← parseStrDict (← fld c "dict"))))
    let a ← fld j "arg"
    return .enumeration code (← parseArgCfg a) (← parseStrDict (← fld a "dict"))
  | "register" => return .register (← str j "r") (← optCode j) ((optStr j "decoPre").getD "") ((optStr j "decoPost").getD "")
  | "indirect_register" => do
    let off ← match fldOpt j "offset" with | none => pure none | some o => do pure (some (← parseArgCfg o))
    return .indReg (← str j "r") (← optCode j) off ((optStr j "decoPre").getD "") ((optStr j "decoPost").getD "")
  | "indirect_numeric" => return .indNum (← optCode j) (← parseArgCfg (← fld j "arg"))
  | "deferred_numeric" => return .defNum (← optCode j) (← parseArgCfg (← fld j "arg"))
  | "indexed_register" => return .idxReg (← str j "r") (← optCode j) (← parseIdxList j)
  | "indirect_indexed_register" => return .indIdxReg (← str j "r") (← optCode j) (← parseIdxList j)
  | "empty" => return .empty (← optCode j)
  | _ => throw s!"operand cfg {t}"

def parseOpList (j : Json) : R (List (String × OperandCfg)) := do
  (← j.getArr?).toList.mapM fun e => do pure ((← str e "id"), (← parseOperandCfg e))

def parseForm (j : Json) : R Form := do
  let f ← str j "f"
  match f with
  | "plain" => return .plain (← parseE (← fld j "e"))
  | "ind" => return .ind (← parseE (← fld j "e"))
  | "ind2" => return .ind2 (← parseE (← fld j "e"))
  | "curly" => return .curly (← parseE (← fld j "e"))
  | "indDeco" => return .indDeco ((optStr j "pre").getD "") (← parseE (← fld j "e")) ((optStr j "post").getD "")
  | "deco" => return .deco ((optStr j "pre").getD "") (← str j "r") ((optStr j "post").getD "")
  | _ => throw s!"form {f}"

def parseVariant (j : Json) : R VariantCfg := do
  let opcode ← parseField (← fld j "opcode")
  let sfx ← match fldOpt j "suffix" with | none => pure none | some s => do pure (some (← parseField s))
  let count := (fldOpt j "count").bind fun c => c.getNat?.toOption
  let specific ← match fldOpt j "specific" with
    | none => pure []
    | some a => do (← a.getArr?).toList.mapM fun s => do
        pure ({ ops := ← parseOpList (← fld s "ops"), revArgs := boolD s "revArgs" false, revCodes := boolD s "revCodes" false } : SpecificCfg)
  let sets ← match fldOpt j "sets" with
    | none => pure none
    | some sc => do
      let ss ← (← (← fld sc "sets").getArr?).toList.mapM parseOpList
      let dis ← match fldOpt sc "disallowed" with
        | none => pure []
        | some d => do (← d.getArr?).toList.mapM fun p => do (← p.getArr?).toList.mapM fun x => x.getStr?
      pure (some ({ sets := ss, disallowed := dis, revArgs := boolD sc "revArgs" false, revCodes := boolD sc "revCodes" false } : SetsCfg))
  return { opcode := opcode, suffix := sfx, count := count, specific := specific, sets := sets }

def parseTForm (j : Json) : R TForm := do
  let t ← str j "t"
  match t with
  | "fixed" => return .fixed (← parseForm (← fld j "form"))
  | "arg" => return .arg (← nat j "n")
  | "indArg" => return .indArg (← nat j "n")
  | "argPlus" => return .argPlus (← nat j "n") (← int j "k")
  | "reg" => return .reg (← nat j "n")
  | "indReg" => return .indReg (← nat j "n")
  | "indRegArgMul" => return .indRegArgMul (← nat j "n") (← int j "k")
  | "op" => return .op (← nat j "n")
  | _ => throw s!"tform {t}"

def parseInstrTable (j : Json) (k : String) : R InstrTable :=
  match fldOpt j k with
  | none => pure []
  | some a => do (← a.getArr?).toList.mapM fun e => do
      pure ((← str e "mn"), (← (← arr e "variants").toList.mapM parseVariant))

def parseMacroVariants (a : Array Json) : R (List MacroVariant) :=
  a.toList.mapM fun mv => do
    let steps ← (← arr mv "steps").toList.mapM fun st => do
      pure ({ mnemonic := ← str st "mn", ops := ← (← arr st "ops").toList.mapM parseTForm } : Step)
    pure ({ operands := ← parseVariant (← fld mv "operands"), steps := steps } : MacroVariant)

def parseMacroTable (j : Json) (k : String) : R (List (String × List MacroVariant)) :=
  match fldOpt j k with
  | none => pure []
  | some a => do (← a.getArr?).toList.mapM fun e => do
      pure ((← str e "mn"), (← parseMacroVariants (← arr e "variants")))

def parseStmt (j : Json) : R Stmt := do
  let k ← str j "k"
  match k with
  | "str" => return .str (← str j "raw") ((fldOpt j "term").bind fun t => t.getNat?.toOption)
  | "define" => return .define (← str j "name") (← parseSymVal j)
  | "cond" => return .cond (← parseCondDir j)
  | "label" => return .label (← str j "name")
  | "const" => return .const (← str j "name") (← parseE (← fld j "e"))
  | "data" => return .data (← nat j "w") (← (← arr j "vals").toList.mapM parseE)
  | "bytes" => return .bytes (← (← arr j "bs").toList.mapM fun b => b.getNat?)
  | "fill" => return .fill (← parseE (← fld j "cnt")) (← parseE (← fld j "val"))
  | "zerountil" => return .zerountil (← parseE (← fld j "a"))
  | "org" => return .org (← parseE (← fld j "e")) (optStr j "zone")
  | "memzone" => return .memzone (← str j "z")
  | "align" => match fldOpt j "p" with
    | some p => return .align (some (← parseE p))
    | none => return .align none
  | "instr" => do
    let args ← (← arr j "args").toList.mapM fun a => do
      let x ← a.getArr?
      pure ((← parseE x[0]!), (← x[1]!.getNat?))
    return .instr (← nat j "opcode") args
  | "isa" => return .isa ((← str j "mn").toLower) (← (← arr j "forms").toList.mapM parseForm)
  | "mute" => return .mute
  | "unmute" => return .unmute
  | "createZone" => return .createZone (← str j "name") (← int j "s") (← int j "e")
  | "comment" => return .comment
  | "include" => return .includeFile (← nat j "f")
  | _ => throw s!"stmt kind {k}"

def parseCfg (j : Json) : R Cfg := do
  let regs ← (← arr j "regs").toList.mapM fun r => r.getStr?
  let preZones ← match fldOpt j "preZones" with
    | none => pure []
    | some z => do (← z.getArr?).toList.mapM fun e => do
        let a ← e.getArr?; pure ((← a[0]!.getStr?), (← a[1]!.getInt?), (← a[2]!.getInt?))
  let preConsts ← match fldOpt j "preConsts" with
    | none => pure []
    | some z => do (← z.getArr?).toList.mapM fun e => do
        let a ← e.getArr?; pure ((← a[0]!.getStr?), (← a[1]!.getInt?))
  let preData ← match fldOpt j "preData" with
    | none => pure []
    | some z => do (← z.getArr?).toList.mapM fun e => do
        let a ← e.getArr?; pure ((← a[0]!.getStr?), (← a[1]!.getInt?), (← a[2]!.getInt?), (← a[3]!.getInt?))
  let preSyms ← match fldOpt j "preSyms" with
    | none => pure []
    | some a => do (← a.getArr?).toList.mapM fun e => do
        pure ((← str e "name"), (← parseSymVal e))
  return { bits := ← nat j "bits", origin := intD j "origin" 0, little := boolD j "little" false,
           pageSize := intD j "pageSize" 1, regs := regs, preZones := preZones, preConsts := preConsts,
           preData := preData, preSyms := preSyms, tbl := ← parseInstrTable j "instrs", macros := ← parseMacroTable j "macros" }

def jMap (m : AddrMap) : Json := Json.arr (m.map fun (a, b) => Json.arr #[jInt a, Json.num (JsonNumber.fromNat b)]).toArray

def jEmitted (e : Emitted) : Json :=
  Json.mkObj [("addr", jInt e.addr), ("size", jInt e.size), ("bytes", jNats e.bytes), ("muted", Json.bool e.muted),
              ("isByte", Json.bool e.isByte)]

def jLabels (L : Labels) : Json :=
  Json.mkObj [("glob", Json.arr (L.glob.map fun (n, v) => Json.arr #[Json.str n, jInt v]).toArray),
              ("file", Json.arr (L.file.map fun (f, n, v) => Json.arr #[Json.num (JsonNumber.fromNat f), Json.str n, jInt v]).toArray),
              ("loc", Json.arr (L.loc.map fun (f, k, n, v) => Json.arr #[Json.num (JsonNumber.fromNat f), Json.num (JsonNumber.fromNat k), Json.str n, jInt v]).toArray)]

/-- op "asm": whole program (structured) → image / lines / labels or the rejection -/
def opAsm (j : Json) : R Json := do
  let cfg ← parseCfg (← fld j "cfg")
  let files ← (← arr j "files").toList.mapM fun f => do (← f.getArr?).toList.mapM parseStmt
  let start := intD j "start" 0
  let stop := optInt j "end"
  let fill := (intD j "fill" 0) % 256
  let pre := assembleLines cfg files
  let overlapSpec : Json := match pre with
    | .ok (es, _) => Json.bool (overlapsSpec es)
    | .error _ => Json.null
  let preLines : Json := match pre with
    | .ok (es, _) => Json.arr (es.map jEmitted).toArray
    | .error _ => Json.null
  -- `assembleFast` = `assemble` (theorem C03.assemble_eq_fast): the image is computed line by line
  match assembleFast cfg files start stop fill.toNat with
  | .error e => return Json.mkObj [("err", Json.str e.name), ("overlapSpec", overlapSpec), ("lines", preLines)]
  | .ok o =>
    let specImg := match stop with
      | some e => (List.range (e + 1 - start).toNat).map fun (i : Nat) => specImageByte o.emitted fill.toNat (start + (i : Int))
      | none => o.image
    let (gapOk, mhMap) : Json × Json := match assembleOut cfg files with
      | .ok ols => (Json.bool (everyGapHasOrg ols 0), jMap (mhRowsToMap (encMinHex ols []) 0 []))
      | .error _ => (Json.null, Json.null)
    return Json.mkObj [("image", jNats o.image), ("specImage", jNats specImg), ("overlapSpec", overlapSpec),
                       ("lines", Json.arr (o.emitted.map jEmitted).toArray), ("labels", jLabels o.labels),
                       ("everyGapHasOrg", gapOk), ("minhexModelMap", mhMap)]

/-- op "asmtext": the same program as SOURCE TEXT (the very text the real assembler reads): parsed by
    `Model/Parse`, then assembled by the layout model -/
def opAsmText (j : Json) : R Json := do
  let cfg ← parseCfg (← fld j "cfg")
  let files ← (← arr j "files").toList.mapM fun f => do pure ((← str f "name"), (← str f "text"))
  let start := intD j "start" 0
  let stop := optInt j "end"
  let fill := (intD j "fill" 0) % 256
  let pc : PCfg := { regs := cfg.regs, mnemonics := (cfg.tbl.map (·.1)) ++ (cfg.macros.map (·.1)),
                     cstrTerm := (intD j "cstrTerm" 0).toNat, embedded := boolD j "embedded" false,
                     fileNames := files.map (·.1) }
  -- `asmTextFast` = `asmText` (theorem asmText_eq_fast)
  match asmTextFast cfg pc (files.map (·.2)) start stop fill.toNat with
  | .error e => return Json.mkObj [("err", Json.str e.name)]
  | .ok o => return Json.mkObj [("image", jNats o.image), ("lines", Json.arr (o.emitted.map jEmitted).toArray)]

/-- block trees: {"b":"line","id":n} {"b":"define","name":..,"v":..}
    {"b":"chain","open":{"d":"if","c":..}|{"d":"ifdef","s":..},"body":[..],"elifs":[{"c":..,"body":[..]}],"else":[..]|null} -/
partial def parseBlock (j : Json) : R Block := do
  let b ← str j "b"
  match b with
  | "line" => return .item (.line (← nat j "id"))
  | "define" => return .item (.define (← str j "name") (← parseSymVal j))
  | "chain" => do
    let o ← fld j "open"
    let od ← str o "d"
    let opener ← match od with
      | "if" => do pure (Opener.ifc (← parseCondExp (← fld o "c")))
      | "ifdef" => do pure (Opener.ifdef (← str o "s"))
      | "ifndef" => do pure (Opener.ifndef (← str o "s"))
      | _ => throw "opener"
    let body ← (← arr j "body").toList.mapM parseBlock
    let elifs ← (← arr j "elifs").toList.mapM fun e => do
      pure ((← parseCondExp (← fld e "c")), (← (← arr e "body").toList.mapM parseBlock))
    let els ← match fldOpt j "else" with
      | none => pure none
      | some e => do pure (some (← (← e.getArr?).toList.mapM parseBlock))
    return .chain opener body elifs els
  | _ => throw s!"block {b}"

def parseSyms (j : Json) : R SymTab :=
  match fldOpt j "syms" with
  | none => pure []
  | some a => do (← a.getArr?).toList.mapM fun e => do
      pure ((← str e "name"), (← parseSymVal e))

/-- op "condtree": spec (tree semantics) and impl (stack machine on the flattened stream) -/
def opCondTree (j : Json) : R Json := do
  let blocks ← (← arr j "blocks").toList.mapM parseBlock
  let syms ← parseSyms j
  let spec := selL true { lines := [], syms := syms } blocks
  let impl := runDirs (flattenL blocks) [] { lines := [], syms := syms }
  let js : Json := match spec with
    | .ok s => Json.mkObj [("lines", jNats s.lines)]
    | .error e => jErr e
  let ji : Json := match impl with
    | .ok (st, s) => Json.mkObj [("lines", jNats s.lines), ("open", Json.num (JsonNumber.fromNat st.length))]
    | .error e => jErr e
  return Json.mkObj [("spec", js), ("impl", ji)]

/-- op "substprog": preprocessor symbol substitution over a sequence of #define / ordinary lines -/
def opSubstProg (j : Json) : R Json := do
  let pre ← match fldOpt j "pre" with
    | none => pure []
    | some a => do (← a.getArr?).toList.mapM fun e => do
        let x ← e.getArr?
        pure ((← x[0]!.getStr?), segment (← x[1]!.getStr?).toList)
  let items ← (← arr j "items").toList.mapM fun it => do
    let d ← str it "d"
    if d == "define" then pure (SItem.define (← str it "name") (segment (← str it "text").toList))
    else pure (SItem.line (segment (← str it "text").toList))
  -- the initial table is built with the same duplicate check
  let t0 : Except Err STab := pre.foldlM (fun t (n, v) => addS t n v) []
  let out (f : STab → List Seg → Except Err (List Seg)) : Json :=
    match t0 with
    | .error e => jErr e
    | .ok t => match substProg f t items with
      | .error e => jErr e
      | .ok ls => Json.mkObj [("lines", Json.arr (ls.map fun l => Json.str (unsegment l)).toArray)]
  return Json.mkObj [("impl", out resolve), ("spec", out expand)]

/-- op "decode": text printed by the real assembler → address/byte pairs (listing: also the rows) -/
def opDecode (j : Json) : R Json := do
  let fmt ← str j "fmt"
  let text ← str j "text"
  match fmt with
  | "intel_hex" => match decIHex text with
    | .ok m => return Json.mkObj [("map", jMap m)]
    | .error e => return jErr e
  | "hex" => match decHexDump text with
    | .ok m => return Json.mkObj [("map", jMap m)]
    | .error e => return jErr e
  | "minhex" => match decMinHex text with
    | .ok m => return Json.mkObj [("map", jMap m)]
    | .error e => return jErr e
  | "listing" => match decListing text with
    | .ok rows => return Json.mkObj [("map", jMap (lrowsMap rows)),
        ("rows", Json.arr (rows.map fun r => Json.mkObj [("line", Json.num (JsonNumber.fromNat r.lineNo)),
          ("addr", Json.num (JsonNumber.fromNat r.addr)), ("bytes", jNats r.bytes)]).toArray)]
    | .error e => return jErr e
  | _ => throw s!"format {fmt}"

/-- op "stmt": variant / operand selection and encoding of one instruction statement -/
def opStmt (j : Json) : R Json := do
  let regs ← (← arr j "regs").toList.mapM fun r => r.getStr?
  let gz := (intD j "gs" 0, intD j "ge" 65535)
  let env ← parseEnv j
  let addr := intD j "addr" 0
  let variants ← (← arr j "variants").toList.mapM parseVariant
  let forms ← (← arr j "forms").toList.mapM parseForm
  let sel : Json := match selectVariant regs gz variants forms 0 with
    | .ok (i, v, m) => Json.mkObj [("variant", Json.num (JsonNumber.fromNat i)),
                                    ("ids", Json.arr (m.ops.map fun p => Json.str p.id).toArray),
                                    ("size", Json.num (JsonNumber.fromNat (stmtSize v m)))]
    | .decline => Json.mkObj [("none", Json.bool true)]
    | .hard => Json.mkObj [("hard", Json.bool true)]
  -- the same statement as source text (optional): parsed by the text front end, then assembled like the forms
  let textRes : List (String × Json) := match optStr j "text" with
    | none => []
    | some t =>
      let pc : PCfg := { regs := regs, mnemonics := [(optStr j "mn").getD "tst"] }
      let r : Json := match parseLine pc t.toList with
        | .ok [.isa _ fs] => match assembleStmt regs gz env addr variants fs with
            | .ok (i, bs) => Json.mkObj [("variant", Json.num (JsonNumber.fromNat i)), ("bytes", jNats bs)]
            | .error e => Json.mkObj [("err", Json.str e.name)]
        | .ok _ => Json.mkObj [("err", Json.str "notOneStatement")]
        | .error e => Json.mkObj [("err", Json.str ("parse:" ++ e.name))]
      [("text", r)]
  match assembleStmt regs gz env addr variants forms with
  | .ok (i, bs) => return Json.mkObj ([("variant", Json.num (JsonNumber.fromNat i)), ("bytes", jNats bs), ("sel", sel)] ++ textRes)
  | .error e => return Json.mkObj ([("err", Json.str e.name), ("sel", sel)] ++ textRes)

/-- op "macro": macro variant selection, template instantiation, step-by-step assembly -/
def opMacro (j : Json) : R Json := do
  let regs ← (← arr j "regs").toList.mapM fun r => r.getStr?
  let gz := (intD j "gs" 0, intD j "ge" 65535)
  let env ← parseEnv j
  let addr := intD j "addr" 0
  let tbl ← (← arr j "instrs").toList.mapM fun e => do
    pure ((← str e "mn"), (← (← arr e "variants").toList.mapM parseVariant))
  let mvs ← (← arr j "macro").toList.mapM fun mv => do
    let steps ← (← arr mv "steps").toList.mapM fun st => do
      pure ({ mnemonic := ← str st "mn", ops := ← (← arr st "ops").toList.mapM parseTForm } : Step)
    pure ({ operands := ← parseVariant (← fld mv "operands"), steps := steps } : MacroVariant)
  let forms ← (← arr j "forms").toList.mapM parseForm
  let exp := expandMacro regs gz mvs forms
  let jexp : Json := match exp with
    | .ok (i, steps) => Json.mkObj [("variant", Json.num (JsonNumber.fromNat i)), ("nsteps", Json.num (JsonNumber.fromNat steps.length)),
        ("sizes", match stepSizes regs gz tbl steps with | some l => jNats l | none => Json.null)]
    | .error e => jErr e
  let spec : Json := match exp with
    | .ok (_, steps) => match specSteps regs gz env tbl addr steps with
      | .ok bss => Json.mkObj [("steps", Json.arr (bss.map jNats).toArray)]
      | .error e => jErr e
    | .error e => jErr e
  match assembleMacro regs gz env tbl addr mvs forms with
  | .ok (i, bs) => return Json.mkObj [("variant", Json.num (JsonNumber.fromNat i)), ("bytes", jNats bs), ("exp", jexp), ("spec", spec)]
  | .error e => return Json.mkObj [("err", Json.str e.name), ("exp", jexp), ("spec", spec)]

def strList (j : Json) (k : String) : R (List String) := do
  match fldOpt j k with
  | none => pure []
  | some a => (← a.getArr?).toList.mapM fun x => x.getStr?

def parseRawOperand (j : Json) : R RawOperand := do
  return { id := (optStr j "id").getD "", kind := ← str j "kind", register := optStr j "register", min := optInt j "min",
           max := optInt j "max", hasArgument := boolD j "hasArgument" true, enumKeys := ← strList j "enumKeys" }

def parseRawVariant (j : Json) : R RawVariant := do
  let setRefs ← match fldOpt j "setRefs" with
    | none => pure none
    | some a => do pure (some (← (← a.getArr?).toList.mapM fun x => x.getStr?))
  let specific ← match fldOpt j "specific" with
    | none => pure []
    | some a => do (← a.getArr?).toList.mapM fun l => do (← l.getArr?).toList.mapM parseRawOperand
  return { hasBytecode := boolD j "hasBytecode" true, hasOperands := boolD j "hasOperands" false,
           count := (fldOpt j "count").bind fun c => c.getNat?.toOption, setRefs := setRefs, specific := specific }

def parseRawIsa (j : Json) : R RawIsa := do
  let operandSets ← (← arr j "operandSets").toList.mapM fun e => do
    pure ((← str e "name"), (← (← arr e "ops").toList.mapM parseRawOperand))
  let instrs (k : String) : R (List (String × List RawVariant)) := do
    match fldOpt j k with
    | none => pure []
    | some a => (← a.getArr?).toList.mapM fun e => do
        pure ((← str e "name"), (← (← arr e "variants").toList.mapM parseRawVariant))
  let zones ← match fldOpt j "zones" with
    | none => pure []
    | some a => do (← a.getArr?).toList.mapM fun e => do
        let x ← e.getArr?; pure ((← x[0]!.getStr?), (← x[1]!.getInt?), (← x[2]!.getInt?))
  return { hasGeneral := boolD j "hasGeneral" true, hasInstructions := boolD j "hasInstructions" true,
           hasOperandSets := boolD j "hasOperandSets" true, minVersion := optStr j "minVersion",
           isaVersion := optStr j "isaVersion", bits := ← nat j "bits", origin := intD j "origin" 0,
           registers := ← strList j "registers", operandSets := operandSets, instructions := ← instrs "instructions",
           macros := ← instrs "macros", zones := zones }

/-- op "validate": is the ISA definition accepted -/
def opValidate (j : Json) : R Json := do
  let c ← parseRawIsa (← fld j "isa")
  match parseVersion (← str j "running"), parseVersion (← str j "minSupported") with
  | some r, some m => return Json.mkObj [("ok", Json.bool (validate r m c))]
  | _, _ => throw "running / minSupported version unparsable"

/-- op "require": is a `#require "name op version"` line honoured -/
def opRequire (j : Json) : R Json := do
  let isaName ← str j "isaName"
  let name ← str j "name"
  match parseVersion (← str j "isaVersion") with
  | none => throw "isa version"
  | some iv =>
    let cmp ← match optStr j "cmp", optStr j "version" with
      | some o, some v => match parseVersion v with
        | some vv => do pure (some ((← cmpOf o), vv))
        | none => throw "required version"
      | _, _ => pure none
    return Json.mkObj [("ok", Json.bool (requireOk isaName iv name cmp))]

/-- op "scan": statements of a program text as the model scanner sees them, and its canonical text -/
def opScan (j : Json) : R Json := do
  let v : Vocab := { mnemonics := ← strList j "mnemonics", registers := ← strList j "registers" }
  let text ← str j "text"
  let stmts := scanProgram v (splitLines text)
  return Json.mkObj [("stmts", Json.arr (stmts.map fun st => Json.arr (st.map Json.str).toArray).toArray),
                     ("canon", Json.str (String.intercalate "\n" (stmts.map stmtText) ++ "\n"))]

def vclassName : VClass → String
  | .instruction => "instruction" | .macro => "macro" | .register => "register" | .predefined => "predefined" | .none => "none"

/-- op "classify": vocabulary classification by the modelled generated patterns and by the spec -/
def opClassify (j : Json) : R Json := do
  let instrs ← strList j "instrs"
  let macros ← strList j "macros"
  let regs ← strList j "regs"
  let pre ← strList j "pre"
  let probes ← strList j "probes"
  return Json.mkObj [("impl", Json.arr (probes.map fun w => Json.str (vclassName (classify instrs macros regs pre w))).toArray),
                     ("spec", Json.arr (probes.map fun w => Json.str (vclassName (classifySpec instrs macros regs pre w))).toArray)]

def dispatch (j : Json) : R Json := do
  let op ← str j "op"
  match op with
  | "bits" => opBits j
  | "fields" => opFields j
  | "expr" => opExpr j
  | "asm" => opAsm j
  | "asmtext" => opAsmText j
  | "condtree" => opCondTree j
  | "substprog" => opSubstProg j
  | "decode" => opDecode j
  | "stmt" => opStmt j
  | "macro" => opMacro j
  | "validate" => opValidate j
  | "scan" => opScan j
  | "classify" => opClassify j
  | "split" => opSplit j
  | "chunks" => opChunks j
  | "require" => opRequire j
  | "ping" => pure (Json.mkObj [("pong", Json.bool true)])
  | _ => throw s!"unknown op {op}"

def handleLine (line : String) : String :=
  match Json.parse line with
  | .error e => (Json.mkObj [("fatal", Json.str s!"json: {e}")]).compress
  | .ok j =>
    match dispatch j with
    | .ok r => r.compress
    | .error e => (Json.mkObj [("fatal", Json.str e)]).compress

end Drv

partial def loop (hin hout : IO.FS.Stream) : IO Unit := do
  let line ← hin.getLine
  if line.isEmpty then return ()
  let t := line.trimAscii.toString
  if t.isEmpty then loop hin hout else
  hout.putStrLn (Drv.handleLine t)
  loop hin hout

def main : IO Unit := do
  let hin ← IO.getStdin
  let hout ← IO.getStdout
  loop hin hout
  hout.flush
