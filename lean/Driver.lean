/-
  Line-protocol driver: one JSON request per input line, one JSON reply per output line.
  Executes the *same* definitions the theorems in `BespokeVerif/Props` are about.
-/
import Lean.Data.Json
import BespokeVerif.Model.Basic
import BespokeVerif.Model.Bits
import BespokeVerif.Model.Constraint
import BespokeVerif.Model.Instr
open Lean BV

namespace Drv

abbrev R := Except String

def fld (j : Json) (k : String) : R Json := j.getObjVal? k
def fldOpt (j : Json) (k : String) : Option Json :=
  match j.getObjVal? k with
  | .ok .null => none
  | .ok v => some v
  | .error _ => none
def int (j : Json) (k : String) : R Int := do (← fld j k).getInt?
def nat (j : Json) (k : String) : R Nat := do (← fld j k).getNat?
def str (j : Json) (k : String) : R String := do (← fld j k).getStr?
def bool (j : Json) (k : String) : R Bool := do (← fld j k).getBool?
def boolD (j : Json) (k : String) (d : Bool) : Bool :=
  match fldOpt j k with | some v => (v.getBool?.toOption.getD d) | none => d
def arr (j : Json) (k : String) : R (Array Json) := do (← fld j k).getArr?
def intD (j : Json) (k : String) (d : Int) : Int :=
  match fldOpt j k with | some v => (v.getInt?.toOption.getD d) | none => d

def jNats (l : List Nat) : Json := Json.arr (l.map (fun n => Json.num (JsonNumber.fromNat n))).toArray
def jInt (i : Int) : Json := Json.num (JsonNumber.fromInt i)
def jErr (e : Err) : Json := Json.mkObj [("err", Json.str e.name)]

def parseField (j : Json) : R Field := do
  return { value := ← int j "v", size := ← nat j "n", align := boolD j "align" false,
           little := boolD j "little" false }

def jField (f : Field) : Json :=
  Json.mkObj [("v", jInt f.value), ("n", Json.num (JsonNumber.fromNat f.size)), ("align", Json.bool f.align),
              ("little", Json.bool f.little)]

def optInt (j : Json) (k : String) : Option Int :=
  match fldOpt j k with | some v => v.getInt?.toOption | none => none

def parseSrc (j : Json) : R ValSrc := do
  let k ← str j "k"
  match k with
  | "plain" => return .plain (← int j "v")
  | "ranged" => return .ranged (← int j "v") (optInt j "min") (optInt j "max")
  | "zone" => return .inZone (← int j "v") (← int j "zs") (← int j "ze")
  | "enum" => do
    let d ← (← arr j "dict").toList.mapM fun e => do
      let a ← e.getArr?
      if a.size ≠ 2 then throw "dict entry" else
      pure ((← a[0]!.getInt?), (← a[1]!.getInt?))
    return .enum (← int j "v") d
  | "rel" => return .rel (← int j "t") (boolD j "fromEnd" false) (optInt j "min") (optInt j "max")
                 (← int j "zs") (← int j "ze")
  | "sliced" => return .sliced (← int j "v") (← int j "zs") (← int j "ze")
  | _ => throw s!"unknown src kind {k}"

def parseSrcField (j : Json) : R SrcField := do
  let src ← match fldOpt j "src" with
    | some s => parseSrc s
    | none => do pure (.plain (← int j "v"))
  return { src := src, size := ← nat j "n", align := boolD j "align" false, little := boolD j "little" false }

def parseSrcOp (j : Json) : R SrcOp := do
  let code ← match fldOpt j "code" with
    | none => pure none
    | some c => do
      let f ← parseSrcField c
      let pos ← str c "pos"
      pure (some (f, if pos == "prefix" then CodePos.prefix else CodePos.suffix))
  let arg ← match fldOpt j "arg" with
    | none => pure none
    | some a => do pure (some (← parseSrcField a))
  return { code := code, arg := arg }

def jBytesRes : Except Err (Option (List Nat)) → Json
  | .error e => jErr e
  | .ok none => Json.mkObj [("err", Json.str "sizeMismatch")]
  | .ok (some bs) => Json.mkObj [("bytes", jNats bs)]

def jSpecRes : Option (List Nat) → Json
  | none => Json.mkObj [("err", Json.str "rejected")]
  | some bs => Json.mkObj [("bytes", jNats bs)]

/-- op "bits": instruction encoding from structured parts -/
def opBits (j : Json) : R Json := do
  let opcode ← parseField (← fld j "opcode")
  let sfx ← match fldOpt j "suffix" with
    | none => pure none
    | some s => do pure (some (← parseField s))
  let ops ← (← arr j "ops").toList.mapM parseSrcOp
  let revArgs := boolD j "revArgs" false
  let revCodes := boolD j "revCodes" false
  let addr := intD j "addr" 0
  let impl := encodeInstr addr ops opcode sfx revArgs revCodes
  let spec := specEncodeInstr addr ops opcode sfx revArgs revCodes
  return Json.mkObj [("impl", jBytesRes impl), ("spec", jSpecRes spec),
    ("size", Json.num (JsonNumber.fromNat (instrSize ops opcode sfx revArgs revCodes)))]

/-- op "fields": raw field list (auxiliary probe of PackedBits) -/
def opFields (j : Json) : R Json := do
  let fs ← (← arr j "fields").toList.mapM parseField
  let allFit := fs.all fun f => decide (Fits f.value f.size)
  let spec : Json := if allFit then Json.mkObj [("bytes", jNats (specBytes fs))] else jErr .fieldOverflow
  return Json.mkObj [("impl", jBytesRes (getBytes fs)), ("spec", spec)]

def dispatch (j : Json) : R Json := do
  let op ← str j "op"
  match op with
  | "bits" => opBits j
  | "fields" => opFields j
  | "ping" => pure (Json.mkObj [("pong", Json.bool true)])
  | _ => throw s!"unknown op {op}"

def handleLine (line : String) : String :=
  match Json.parse line with
  | .error e => (Json.mkObj [("fatal", Json.str s!"json: {e}")]).compress
  | .ok j =>
    match dispatch j with
    | .ok r => r.compress
    | .error e => (Json.mkObj [("fatal", Json.str e)]).compress

end Drv

partial def loop (hin hout : IO.FS.Stream) : IO Unit := do
  let line ← hin.getLine
  if line.isEmpty then return ()
  let t := line.trimAscii.toString
  if t.isEmpty then loop hin hout else
  hout.putStrLn (Drv.handleLine t)
  loop hin hout

def main : IO Unit := do
  let hin ← IO.getStdin
  let hout ← IO.getStdout
  loop hin hout
  hout.flush
