import BespokeVerif.Model.Basic
import BespokeVerif.Model.Bits
